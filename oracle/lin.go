// Package oracle holds checkers that run outside the simulation (they are not instrumented).
package oracle

import (
	"time"

	"github.com/anishathalye/porcupine"
)

// Op is one completed operation of a recorded history. Call/Return are simulator event stamps.
type Op struct {
	Client int
	In     any
	Out    any
	Call   int64
	Return int64
}

// Model is a sequential specification: Step reports whether out is a legal result of in applied to
// state, and the next state. Equal compares states (optional; enables state caching).
type Model struct {
	Init  func() any
	Step  func(state, in, out any) (bool, any)
	Equal func(a, b any) bool
	Desc  func(in, out any) string
}

// Linearizable checks ops against m. It returns ok=false only for a definite violation; timedOut is
// reported separately and must be treated as inconclusive, never as a violation.
func Linearizable(m Model, ops []Op, timeout time.Duration) (ok, timedOut bool) {
	pm := porcupine.Model{
		Init: func() interface{} { return m.Init() },
		Step: func(state, input, output interface{}) (bool, interface{}) { return m.Step(state, input, output) },
	}
	if m.Equal != nil {
		pm.Equal = func(a, b interface{}) bool { return m.Equal(a, b) }
	}
	var pops []porcupine.Operation
	for _, o := range ops {
		pops = append(pops, porcupine.Operation{ClientId: o.Client, Input: o.In, Call: o.Call, Output: o.Out, Return: o.Return})
	}
	switch porcupine.CheckOperationsTimeout(pm, pops, timeout) {
	case porcupine.Ok:
		return true, false
	case porcupine.Illegal:
		return false, false
	default:
		return true, true
	}
}
