module bbsim

go 1.26.0

require (
	github.com/anishathalye/porcupine v1.3.0
	github.com/joeycumines/go-bigbuff v0.0.0
)

require golang.org/x/tools v0.50.0

replace github.com/joeycumines/go-bigbuff => /repo
