#!/usr/bin/env python3
"""Writes the prompts of one seeding round: tools/seed_round.py <tag> <outdir> [props...].
Each prompt = tools/seed_prompt.py text + the round's constraints + one-line descriptions of every
change already kept for that property (so the new ones differ). Nothing else from /verif is disclosed."""
import json, glob, os, subprocess, sys
tag, outdir = sys.argv[1], sys.argv[2]
props = sys.argv[3:] or [f"C{i:02d}" for i in range(1, 21) if i != 19]
os.makedirs(outdir, exist_ok=True)
IDEAS = os.environ.get('SEED_IDEAS') or """- Ideas to consider this round: code the property depends on INDIRECTLY (helpers shared between components, e.g. the condition-variable wait helper, the cleaner functions, the context combinators used inside other types, the broadcast primitive used inside the pub-sub, option/constructor plumbing); arithmetic and boundary conditions (overflow, off-by-one at capacity or at zero, negative or extreme durations/counts/sizes, very large batches or very many participants); behaviour that only shows after a long history on one object (hundreds of operations, wrap-around of a counter, reuse after the object has been idle or emptied); re-entrancy (a user callback that calls back into the same object); an operation that is interrupted half-way (panic in a user callback, context cancelled exactly between two internal steps) followed by normal use. Still only non-test source, still must pass the existing suite, still subtle.
"""
for p in props:
    planted = []
    for d in sorted(glob.glob(f'/verif/seeded/{p}-*')):
        m = json.load(open(d + '/meta.json'))
        s = (m.get('summary') or '').split('; needs')[0].strip()
        if s:
            planted.append(s)
    extra = f"""
ADDITIONAL CONSTRAINTS FOR THIS ROUND:
- Name your output directories /tmp/seed-out/{p}-{tag}-k/ (k = 1..{os.environ.get('SEED_N', '3')}).
- Do NOT use `git stash` (shared by all worktrees); restore with `git checkout -- . && git clean -fdq`, re-apply from your saved patch file.
- Never use pkill/killall with a pattern; kill only process ids you started yourself.
- Scratch copies: /tmp/seed-out/scratch-{p}-{tag}-*, removed when done.
- The machine is shared and can be heavily loaded: wall-clock based tests of OTHER components (TestExclusiveRateLimit, TestWaitDuration_*, TestWorkers_Call, TestChanPubSub_withSpammingSubscribeUnsubscribe, TestConsumer_Get_inputCanceled, ...) may flake; judge a suite failure by whether the failing test can possibly be affected by your change and re-run it in isolation.
- Other people have ALREADY planted the following changes for this property; yours must be genuinely different from all of them (different code site or different mechanism), not variations:
""" + "\n".join("    * " + s for s in planted) + """
""" + IDEAS + """
"""
    txt = subprocess.run(['python3', '/verif/tools/seed_prompt.py', p, os.environ.get('SEED_N', '3'), extra], capture_output=True, text=True).stdout
    txt = txt.replace(f'/tmp/seed-out/{p}-k/', f'/tmp/seed-out/{p}-{tag}-k/')
    open(f'{outdir}/{p}.txt', 'w').write(txt)
    print(p, len(planted), 'planted,', len(txt), 'bytes')
