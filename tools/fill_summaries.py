#!/usr/bin/env python3
"""Fill the empty 'summary' / 'needs_to_manifest' of seeded/<name>/meta.json from the NOTES.md its author wrote
(first heading = what was changed; the section whose heading mentions 'manifest'/'needs'/'trigger' = what it takes)."""
import glob, json, os, re, sys

pat = sys.argv[1] if len(sys.argv) > 1 else '*'
for mp in sorted(glob.glob(f'/verif/seeded/{pat}/meta.json')):
    m = json.load(open(mp))
    if m.get('summary'):
        continue
    d = os.path.dirname(mp)
    notes = os.path.join(d, 'NOTES.md')
    if not os.path.exists(notes):
        src = os.path.join(m.get('source_dir', ''), 'NOTES.md')
        if not os.path.exists(src):
            print('no notes', m['name']); continue
        notes = src
    text = open(notes).read()
    lines = text.splitlines()
    title = ''
    for l in lines:
        if l.startswith('#'):
            title = l.lstrip('#').strip()
            break
    title = re.sub(r'^C\d\d-[a-z0-9]+-\d\s*[:\-—–]*\s*', '', title).strip()
    needs = ''
    for i, l in enumerate(lines):
        if l.startswith('#') and re.search(r'manifest|needs|trigger|when it shows', l, re.I) and i > 0:
            body = ' '.join(x.strip() for x in lines[i + 1:i + 8] if x.strip() and not x.startswith('#'))
            needs = re.split(r'(?<=[.:])\s', body)[0][:300]
            break
    m['summary'] = (title + ('; needs: ' + needs if needs else ''))[:600]
    m['needs_to_manifest'] = needs
    json.dump(m, open(mp, 'w'), indent=1)
    print(m['name'], '|', m['summary'][:150])
