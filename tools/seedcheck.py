#!/usr/bin/env python3
"""Validates one seeded change produced by an independent sub-agent and runs the property's check
against it.

  tools/seedcheck.py <seed-out-dir> <PROP> <name> [--runs N] [--props C01,C03] [--keep]

Steps (all in a scratch git worktree of /repo under /tmp, removed afterwards; /repo is never touched):
  1. patch applies, `go build ./...` passes
  2. the library's stable baseline tests (BASELINE.json stable_pass) all pass with the change
  3. the demonstration fails with the change and passes without it
  4. `bbsim check --prop P` against the changed tree (BBSIM_REPO) for the owning property (and any
     extra properties given): caught or missed, check id, runs
If 1-3 hold, the change is stored as /verif/seeded/<name>/ {patch.diff, demo files, NOTES.md, meta.json}.
"""
import json, os, re, shutil, subprocess, sys, tempfile, time

ENV = dict(os.environ, GOFLAGS="-mod=mod", GOPROXY="off", GOSUMDB="off", GOTOOLCHAIN="local")


def sh(cmd, cwd=None, timeout=3600, env=ENV):
    p = subprocess.run(cmd, shell=True, cwd=cwd, env=env, capture_output=True, text=True, timeout=timeout)
    return p.returncode, p.stdout + p.stderr


def stable_tests():
    b = json.load(open('/root/.vp/BASELINE.json'))
    return [t.split('::', 1)[1] for t in b['stable_pass']]


def run_suite(wt):
    rc, out = sh("go test -json -vet=off -count=1 -timeout 25m ./...", cwd=wt)
    status = {}
    for line in out.splitlines():
        try:
            ev = json.loads(line)
        except Exception:
            continue
        if ev.get('Test') and ev.get('Action') in ('pass', 'fail', 'skip'):
            status[ev['Test']] = ev['Action']
    bad = [t for t in stable_tests() if status.get(t) != 'pass']
    return bad


def find_demo(src):
    tests = [f for f in os.listdir(src) if f.endswith('_test.go')]
    return tests


def demo_names(path):
    return re.findall(r'^func (Test\w+)\(', open(path).read(), re.M)


def main():
    args = sys.argv[1:]
    src, prop, name = args[0], args[1], args[2]
    runs = 200000
    props = [prop]
    keep = False
    race_demo = False
    i = 3
    while i < len(args):
        if args[i] == '--runs':
            runs = int(args[i + 1]); i += 2
        elif args[i] == '--props':
            props = args[i + 1].split(','); i += 2
        elif args[i] == '--keep':
            keep = True; i += 1
        elif args[i] == '--race-demo':
            race_demo = True; i += 1
        else:
            i += 1
    meta = {"name": name, "property": prop, "source_dir": src, "validated_at": time.strftime('%Y-%m-%dT%H:%M:%SZ', time.gmtime())}
    wt = tempfile.mkdtemp(prefix='wtv-', dir='/tmp')
    os.rmdir(wt)
    rc, out = sh(f"git -C /repo worktree add -q --detach {wt} HEAD")
    if rc != 0:
        print("worktree failed", out); return 2
    try:
        patch = os.path.join(src, 'patch.diff')
        rc, out = sh(f"git apply {patch}", cwd=wt)
        if rc != 0:
            print("PATCH DOES NOT APPLY", out); meta['ok'] = False; meta['why'] = 'patch does not apply'; return finish(meta, src, name, False)
        rc, out = sh("go build ./...", cwd=wt)
        meta['builds'] = rc == 0
        if rc != 0:
            print("DOES NOT BUILD", out[-800:]); return finish(meta, src, name, False)
        # demo with the change
        demos = find_demo(src)
        meta['demo_files'] = demos
        demo_ok = None
        if demos:
            names = []
            for d in demos:
                shutil.copy(os.path.join(src, d), os.path.join(wt, d))
                names += demo_names(os.path.join(src, d))
            pat = '^(' + '|'.join(names) + ')$'
            fails_with = 0
            for _ in range(3):
                rc, out = sh(f"go test {'-race ' if race_demo else ''}-vet=off -count=1 -timeout 10m -run '{pat}' .", cwd=wt)
                fails_with += rc != 0
            # demo without the change
            sh(f"git apply -R {patch}", cwd=wt)
            fails_without = 0
            for _ in range(3):
                rc, out2 = sh(f"go test {'-race ' if race_demo else ''}-vet=off -count=1 -timeout 10m -run '{pat}' .", cwd=wt)
                fails_without += rc != 0
            sh(f"git apply {patch}", cwd=wt)
            for d in demos:
                os.remove(os.path.join(wt, d))
            meta['demo'] = {"race_detector": race_demo, "tests": names, "fails_with_change": f"{fails_with}/3", "fails_without_change": f"{fails_without}/3"}
            demo_ok = fails_with >= 1 and fails_without == 0
        else:
            meta['demo'] = {"note": "no demo_test.go; see NOTES.md for the demonstration program"}
        meta['demo_ok'] = demo_ok
        # stable baseline with the change
        bad = run_suite(wt)
        if bad:
            bad2 = run_suite(wt)  # a second chance for timing-sensitive tests
            bad = [t for t in bad if t in bad2]
        meta['baseline_failures_with_change'] = bad
        print(f"{name}: builds={meta['builds']} demo={meta.get('demo')} baseline_failures={bad}")
        valid = meta['builds'] and not bad and (demo_ok is not False)
        # our checks
        results = {}
        for p in props:
            rdir = tempfile.mkdtemp(prefix='replays-', dir='/tmp')
            env = dict(ENV, BBSIM_REPO=wt, BBSIM_REPLAYDIR=rdir)
            t0 = time.time()
            rc, out = sh(f"/verif/bin/bbsim check --prop {p} --runs {runs} --no-evidence", cwd='/verif', env=env)
            m = re.search(r'check=(\S+) harness=(\S+) run_index=(\d+)', out)
            nviol = len(re.findall(r'^VIOLATION', out, re.M))
            firsts = sorted(int(x) for x in re.findall(r'run_index=(\d+)', out))
            checks = sorted(set(re.findall(r'check=(\S+)', out)))
            results[p] = {"exit": rc, "violations": nviol, "checks": checks, "first_run_index": firsts[0] if firsts else None,
                          "runs": runs, "wall_s": round(time.time() - t0, 1)}
            if rc == 2:
                results[p]['infra'] = out[-600:]
            print(f"  {p}: exit={rc} violations={nviol} checks={checks} first={firsts[0] if firsts else None}")
            shutil.rmtree(rdir, ignore_errors=True)
        meta['bbsim'] = results
        meta['caught'] = any(r['exit'] == 1 for r in results.values())
        return finish(meta, src, name, valid)
    finally:
        sh(f"git -C /repo worktree remove --force {wt}")
        shutil.rmtree(wt, ignore_errors=True)


def finish(meta, src, name, valid):
    meta['valid'] = valid
    if valid:
        dst = os.path.join('/verif/seeded', name)
        os.makedirs(dst, exist_ok=True)
        for f in os.listdir(src):
            if os.path.isfile(os.path.join(src, f)):
                shutil.copy(os.path.join(src, f), os.path.join(dst, f))
        old = {}
        mp = os.path.join(dst, 'meta.json')
        if os.path.exists(mp):
            old = json.load(open(mp))
        hist = old.get('history', [])
        if 'bbsim' in old:
            hist.append({"at": old.get('validated_at'), "bbsim": old['bbsim'], "caught": old.get('caught')})
        meta['history'] = hist
        for k in ('summary', 'needs_to_manifest'):
            if k in old and k not in meta:
                meta[k] = old[k]
        json.dump(meta, open(mp, 'w'), indent=1)
    print(json.dumps({k: meta.get(k) for k in ('name', 'valid', 'caught')}))
    return 0


if __name__ == '__main__':
    sys.exit(main())
