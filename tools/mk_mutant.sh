mk () 
{ 
    python3 - "$@" <<'EOF'
import sys,subprocess,os,tempfile,shutil
name,f,old,new=sys.argv[1:5]
src=open('/repo/'+f).read()
assert src.count(old)>=1, (name,'pattern not found')
d=tempfile.mkdtemp()
os.makedirs(d+'/a');os.makedirs(d+'/b')
open(d+'/a/'+f,'w').write(src); open(d+'/b/'+f,'w').write(src.replace(old,new,1))
out=subprocess.run(['diff','-u','a/'+f,'b/'+f],cwd=d,capture_output=True,text=True).stdout
open('/verif/mutants/'+name+'.diff','w').write(out)
shutil.rmtree(d)
EOF

}
mk "$@"
