#!/bin/bash
# usage: tools/run_mutant.sh <patch.diff> <prop> [runs]   -- applies the patch to a scratch copy of /repo,
# runs the property's check against it, prints the verdict, removes the copy. Never touches /repo.
set -u
P=$(realpath $1); PROP=$2; RUNS=${3:-30000}
V=${BBSIM_VERIF:-/verif}
D=$(mktemp -d /tmp/repo-mut-XXXXXX)
cp -r /repo/. $D/ && rm -rf $D/.git
if ! (cd $D && patch -p1 -s -f < $P >/dev/null 2>&1); then echo "PATCH-FAILED $P"; rm -rf $D; exit 3; fi
export GOFLAGS=-mod=mod GOPROXY=off GOSUMDB=off GOTOOLCHAIN=local
if ! (cd $D && go build ./... 2>&1 | head -5 | grep -q . ); then :; else echo "MUTANT-DOES-NOT-COMPILE $P"; (cd $D && go build ./... 2>&1 | head -5); rm -rf $D; exit 3; fi
R=$(mktemp -d /tmp/replays-XXXXXX)
OUT=$(BBSIM_REPLAYDIR=$R BBSIM_REPO=$D BBSIM_VERIF=$V $V/bin/bbsim check --prop $PROP --runs $RUNS --no-evidence 2>&1); RC=$?
N=$(echo "$OUT" | grep -c '^VIOLATION')
CHK=$(echo "$OUT" | grep -m1 'check=' | sed 's/^ *//')
echo "$(basename $P) $PROP rc=$RC violations=$N $CHK"
if [ $RC -eq 2 ]; then echo "$OUT" | tail -5; fi
rm -rf $D
rm -rf $R
exit 0
