#!/usr/bin/env python3
"""Regenerates /verif/MANIFEST.json from the table below (kept in one place so that the manifest is
always valid and consistent with the checks that exist)."""
import json, os

ENV = "GOFLAGS=-mod=mod GOPROXY=off GOSUMDB=off GOTOOLCHAIN=local"
SETUP = ("cd /verif && export %s && mkdir -p bin evidence replays && go1.26.8 build -o bin/ ./cmd/... && bin/bbsim setup" % ENV)

# property -> (technique, level text, note, design ref)
CLAIMED = {
    "C05": ("deterministic simulation: seeded schedules x cancel/close/put placements; quiescence oracle for lost wake-ups, sequential model for failed Gets",
            "Seeded exploration of generated programs (blocked Gets and direct WaitCond waiters, with Puts, context cancellations and Buffer.Close placed by the scheduler before the check, between check and park, and after the park) over the real, instrumented library; every scheduling decision is owned by the simulator, so 'no wake-up is lost' is checked at exact quiescence instead of by sleeping.",
            "Trusted: the sync/time stubs (ports of the documented semantics), the instrumentation pass, Go's channels/select inside a synctest bubble. Sampling, not enumeration.",
            "DESIGN.md section 5 (C05)"),
}

NOT_YET = "check not built yet in this session (framework under construction); see DESIGN.md section 5"
NA = {
    "C19": "pure function of its inputs (reflection over arguments): no goroutine, lock, channel, timer, context or I/O for a schedule, clock or fault to act on; deterministic simulation does not apply (DESIGN.md section 6)",
}

ALL = ["C%02d" % i for i in range(1, 21)]

def main():
    checks = []
    for p in ALL:
        if p not in CLAIMED:
            continue
        tech, text, note, ref = CLAIMED[p]
        checks.append({
            "property_id": p,
            "quick_cmd": "cd /verif && bin/bbsim check --prop %s --tier quick" % p,
            "thorough_cmd": "cd /verif && bin/bbsim check --prop %s --tier thorough" % p,
            "evidence_file": "/verif/evidence/%s.json" % p,
            "replay_cmd_template": "cd /verif && bin/bbsim replay {path}",
            "engine": "bbsim",
            "level_claimed": {"category": "exploration", "text": text, "design_ref": ref},
            "level_note": note,
            "technique": tech,
        })
    na = []
    for p in ALL:
        if p in CLAIMED:
            continue
        na.append({"property_id": p, "reason": NA.get(p, NOT_YET)})
    m = {
        "version": 1,
        "setup_cmd": SETUP,
        "hooks": {
            "guard": "bbsim (build-time source instrumentation of a scratch copy of /repo; no hook is compiled into /repo)",
            "enable": "bin/bbsim check copies /repo's working tree to a temporary directory, rewrites it with the instr pass (imports of sync, sync/atomic, time, context, math/rand -> simulator shims; go -> simrt.Go; channel operations, select and map ranges -> seeded scheduling points) and builds the harness against that copy with go1.26.8",
            "baseline_off_cmd": "cd /repo && go test -vet=off -count=1 -timeout 25m ./...",
            "source_commits": [],
            "add_only": True,
        },
        "engines": [{
            "name": "bbsim",
            "path": "/verif/cmd/bbsim",
            "serves_properties": sorted(CLAIMED),
            "kind_free_text": "deterministic simulation with fault injection: seeded cooperative scheduler over real goroutines in a testing/synctest bubble, discrete-event clock, instrumented library source, public-API oracles, replay + minimisation",
        }],
        "checks": checks,
        "not_applicable": na,
        "notes": "Every check rebuilds from /repo's current working tree. Exit 0 = held on everything explored, 1 = VIOLATION line(s), 2 = infrastructure trouble (never a violation). VERIF_SEED selects the seed, VERIF_TIER or --tier the tier.",
    }
    with open(os.path.join(os.path.dirname(__file__), "..", "MANIFEST.json"), "w") as f:
        json.dump(m, f, indent=1)
        f.write("\n")

if __name__ == "__main__":
    main()
