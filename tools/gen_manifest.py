#!/usr/bin/env python3
"""Regenerates /verif/MANIFEST.json from the table below (kept in one place so that the manifest is
always valid and consistent with the checks that exist)."""
import json, os

ENV = "GOFLAGS=-mod=mod GOPROXY=off GOSUMDB=off GOTOOLCHAIN=local"
SETUP = ("cd /verif && export %s && mkdir -p bin evidence replays && go1.26.8 build -o bin/ ./cmd/... && bin/bbsim setup" % ENV)

# property -> (technique, level text, note, design ref)
NOTE = ("Trusted: the sync/time stubs (ports of the documented semantics), the generic instrumentation pass (validated by running the "
        "library's own 242 baseline tests on the instrumented copy in passthrough mode), Go's channels/select inside a testing/synctest bubble, "
        "the harness oracle. Sampling of schedules x programs x faults, not enumeration: a clean batch is evidence, not proof.")

def T(what):
    return ("Seeded exploration: generated programs of the property's harness run against the real, source-instrumented library under a "
            "simulator that owns every scheduling decision, timer and select/map/random choice; " + what +
            " Violations are minimised and replayed in a fresh process before they are reported.")

# property -> (technique, level text, note, design ref)
CLAIMED = {
    "C01": ("deterministic simulation; order-witness oracle (merged successor relation + auditor consumer) over recorded history with real-time brackets",
            T("checks that all observers' streams and Slice snapshots embed into one total put order (contiguity, batches, real-time order, no loss, start point)."), NOTE, "DESIGN.md section 5 (C01)"),
    "C02": ("deterministic simulation; per-consumer sequential transaction model, porcupine linearizability for shared consumers, scripted Range callbacks (stop/panic/put)",
            T("steps a commit/rollback model per consumer, checks Range/Buffer.Range against it (panic and error roll back the in-flight value, Buffer.Range stops at the end), and checks shared consumers for linearizability."), NOTE, "DESIGN.md section 5 (C02)"),
    "C03": ("deterministic simulation with forced-trim fault injection; eviction brackets on Slice/Size/Diff, loud-failure oracle, reference cleaner",
            T("injects forced trims (FixedBufferCleaner, adversarial cleaners) under lagging consumers and checks retention under the default cleaner, loud failure after eviction, Slice/Size/Diff brackets and every cleaner invocation against a reference."), NOTE, "DESIGN.md section 5 (C03)"),
    "C04": ("deterministic simulation; quiescence oracle with all simulated timers drained (bounded liveness), cooldown/last-commit placement by the scheduler",
            T("places the last commits/closes inside cooldown windows and checks at exact quiescence (no task runnable, no timer pending) that the buffer holds exactly the slowest open consumer's backlog / at most max."), NOTE, "DESIGN.md section 5 (C04)"),
    "C05": ("deterministic simulation: seeded schedules x cancel/close/put placements; quiescence oracle for lost wake-ups, sequential model for failed Gets",
            T("places Puts, context cancellations and Buffer.Close before the check, between check and park, and after the park of blocked Gets and direct WaitCond waiters; 'no wake-up is lost' is checked at exact quiescence instead of by sleeping."), NOTE, "DESIGN.md section 5 (C05)"),
    "C06": ("deterministic simulation; per-message receipt accounting, real-time brackets, order witness over subscription streams",
            T("mixes SubscribeContext iterators and manual Add/C/Wait subscribers with joins, leaves, context cancels and stalls placed inside every window of Send; checks exactly-n receipts, must-receive / must-not-receive by stamps, acknowledgement before Send returns and one global order."), NOTE, "DESIGN.md section 5 (C06)"),
    "C07": ("deterministic simulation; deadlock/livelock detection at lock/atomic/channel granularity, invariant-panic and count oracles, fresh-round probe",
            T("heavy membership churn (mid-send unsubscribe, before first receive, context cancel, early break, iterator never run); every call must have returned at quiescence, nothing may panic, Add(0) equals subscriptions minus unsubscriptions and a fresh subscriber + Send round works."), NOTE, "DESIGN.md section 5 (C07)"),
    "C08": ("deterministic simulation with misuse fault injection; receipt accounting, conservation, panic-stickiness oracle",
            T("drives the bare ChanCaster (unbuffered and buffered) with racing Sends, positive and negative Adds and give-ups, and injects out-of-range, unbalanced and overflowing Adds; checks counts, must-receive, late registrations, Add(0) after Send, termination, and that misuse keeps panicking."), NOTE, "DESIGN.md section 5 (C08)"),
    "C09": ("deterministic simulation; interval non-overlap per key, other-keys-complete-while-held at quiescence",
            T("mixes every Exclusive call style over 1-3 keys with work functions that resolve early, are held on gates, or never resolve, and checks per-key execution intervals for overlap and cross-key independence at quiescence."), NOTE, "DESIGN.md section 5 (C09)"),
    "C10": ("deterministic simulation; call-to-execution attribution by stamps, exactly-one-outcome, coalescing and fresh-call oracles",
            T("attributes every outcome to an execution begun after the call, checks identical outcomes for coalesced callers, forced resolve, Start follow-up, executions <= calls and absence of leftover per-key state."), NOTE, "DESIGN.md section 5 (C10)"),
    "C11": ("deterministic simulation under the Go race detector: simulator hand-offs hidden (RaceDisable), shims annotated with the real primitives' happens-before edges",
            T("the same kinds of concurrent workloads are rebuilt with -race; the detector sees only the program's own synchronisation, on schedules the simulator chooses, and reports are attributed to the seed that produced them."),
            NOTE + " The race detector's own shadow memory is bounded, so a report may need more than one fresh process to recur on replay.", "DESIGN.md sections 3.8, 5 (C11)"),
    "C12": ("deterministic simulation; random lifecycle programs, close/cancel orders racing in-flight calls, exact task registry for the leak check",
            T("builds random programs over every handle type, closes and cancels in drawn orders while calls are in flight, and checks that Close returns, Done closes, later calls fail cleanly, a second Close errors, contents stay readable and, at quiescence with all timers drained, every goroutine the library started has exited (exact registry of spawn sites)."), NOTE, "DESIGN.md section 5 (C12)"),
    "C13": ("deterministic simulation; porcupine linearizability of the recorded Get/Commit/Rollback/Buffer/Close history against a sequential model, conservation at the end",
            T("feeds a source channel, issues concurrent Get/Commit/Rollback/Buffer/Close with cancels, parent-context cancels and source closes, checks the stamped history for linearizability (inconclusive results are counted, never reported) and checks conservation, no zero values, nothing taken after Done."), NOTE, "DESIGN.md section 5 (C13)"),
    "C14": ("deterministic simulation; exactly-once/result identity, online concurrency bound, starvation and Wait oracles at quiescence",
            T("drives Workers with equal, arbitrary and decreasing counts and functions held on gates; checks exactly-once execution, the running bound against the largest count requested so far, no starvation at quiescence, and Wait/Count."), NOTE, "DESIGN.md section 5 (C14)"),
    "C15": ("deterministic simulation; per-publish receipt accounting with eligibility brackets, misuse injection, quiescence oracle for stuck publishes",
            T("varies keys, element types, subscription styles, receiver readiness, context cancels during a publish and published values including nil; each publish must reach exactly the subscriptions that were eligible throughout it, once; duplicate Subscribe / unmatched Unsubscribe must panic and change nothing."), NOTE, "DESIGN.md section 5 (C15)"),
    "C16": ("deterministic simulation; observation table over cancel orders and truly concurrent cancels inside the instrumented context package",
            T("draws inputs (plain, parent-cancelled, foreign, timeout, nil, duplicate, pre-cancelled), cancels them from several tasks in drawn orders, and checks cancelled-iff tables, Value delegation and exactly-once hooks; liveness only at quiescence."), NOTE, "DESIGN.md section 5 (C16)"),
    "C17": ("deterministic simulation; per-step stop-channel polling for exact close stamps, interval and holder oracles",
            T("interleaves Do/done of 1-5 holders with instances starting, stopping and exiting; a per-step hook stamps exactly when each stop channel closes, so 'stopped only after every holder is done' is decided exactly."), NOTE, "DESIGN.md section 5 (C17)"),
    "C18": ("deterministic simulation with scripted operation faults; call accounting by stamps, timer-request log for back-off durations",
            T("scripts operation outcomes (plain errors, nested fatal errors, success), durations and rates, cancels before / during a call / during a wait, draws the random slots from the simulator's choice stream (biased to 0 and max, including >= 33 failures), and checks call count, result identity, no call after cancel and every requested wait."), NOTE, "DESIGN.md section 5 (C18)"),
    "C20": ("deterministic simulation; per-step channel observation, receipt accounting around the cancel stamp, producer-exit check in the task registry",
            T("varies count, rate, receiver pace (prompt, stalled, absent, late) and the cancel instant relative to ticks; checks first value immediately, at most count values, monotone stamps, cap 1, at most two values after cancel, always closed, producer exits and its ticker is stopped."), NOTE, "DESIGN.md section 5 (C20)"),
}

NOT_YET = "check not built yet in this session (framework under construction); see DESIGN.md section 5"
NA = {
    "C19": "pure function of its inputs (reflection over arguments): no goroutine, lock, channel, timer, context or I/O for a schedule, clock or fault to act on; deterministic simulation does not apply (DESIGN.md section 6)",
}

ALL = ["C%02d" % i for i in range(1, 21)]

def main():
    checks = []
    for p in ALL:
        if p not in CLAIMED:
            continue
        tech, text, note, ref = CLAIMED[p]
        checks.append({
            "property_id": p,
            "quick_cmd": "cd /verif && bin/bbsim check --prop %s --tier quick" % p,
            "thorough_cmd": "cd /verif && bin/bbsim check --prop %s --tier thorough" % p,
            "evidence_file": "/verif/evidence/%s.json" % p,
            "replay_cmd_template": "cd /verif && bin/bbsim replay {path}",
            "engine": "bbsim",
            "level_claimed": {"category": "exploration", "text": text, "design_ref": ref},
            "level_note": note,
            "technique": tech,
        })
    na = []
    for p in ALL:
        if p in CLAIMED:
            continue
        na.append({"property_id": p, "reason": NA.get(p, NOT_YET)})
    m = {
        "version": 1,
        "setup_cmd": SETUP,
        "hooks": {
            "guard": "bbsim (build-time source instrumentation of a scratch copy of /repo; no hook is compiled into /repo)",
            "enable": "bin/bbsim check copies /repo's working tree to a temporary directory, rewrites it with the instr pass (imports of sync, sync/atomic, time, context, math/rand -> simulator shims; go -> simrt.Go; channel operations, select and map ranges -> seeded scheduling points) and builds the harness against that copy with go1.26.8",
            "baseline_off_cmd": "cd /repo && go test -vet=off -count=1 -timeout 25m ./...",
            "source_commits": [],
            "add_only": True,
        },
        "engines": [{
            "name": "bbsim",
            "path": "/verif/cmd/bbsim",
            "serves_properties": sorted(CLAIMED),
            "kind_free_text": "deterministic simulation with fault injection: seeded cooperative scheduler over real goroutines in a testing/synctest bubble, discrete-event clock, instrumented library source, public-API oracles, replay + minimisation",
        }],
        "checks": checks,
        "not_applicable": na,
        "notes": "Every check rebuilds from /repo's current working tree. Exit 0 = held on everything explored, 1 = VIOLATION line(s), 2 = infrastructure trouble (never a violation). VERIF_SEED selects the seed, VERIF_TIER or --tier the tier. Known findings: /verif/known_findings.json (five repaired defects recorded as fixed, one unrepaired finding of C05 printed as KNOWN-FINDING; see DESIGN.md section 7).",
    }
    with open(os.path.join(os.path.dirname(__file__), "..", "MANIFEST.json"), "w") as f:
        json.dump(m, f, indent=1)
        f.write("\n")

if __name__ == "__main__":
    main()
