#!/usr/bin/env python3
"""Re-runs the checks against every kept seeded change (patch applied to a scratch worktree) and
records the verdict as the latest entry of seeded/<id>/meta.json. Usage: recheck_seeded.py [runs] [jobs] [prefix]"""
import json, os, re, subprocess, sys, glob, tempfile, shutil, time
from concurrent.futures import ThreadPoolExecutor
runs = int(sys.argv[1]) if len(sys.argv) > 1 else 100000
jobs = int(sys.argv[2]) if len(sys.argv) > 2 else 2
prefix = sys.argv[3] if len(sys.argv) > 3 else ''
ENV = dict(os.environ, GOFLAGS="-mod=mod", GOPROXY="off", GOSUMDB="off", GOTOOLCHAIN="local")
def one(d):
    mp = os.path.join(d, 'meta.json')
    m = json.load(open(mp))
    props = list(m.get('bbsim', {}).keys()) or [m['property']]
    wt = tempfile.mkdtemp(prefix='wtv-', dir='/tmp'); os.rmdir(wt)
    subprocess.run(f"git -C /repo worktree add -q --detach {wt} HEAD", shell=True, capture_output=True)
    try:
        r = subprocess.run(f"git apply {os.path.join(d,'patch.diff')}", shell=True, cwd=wt, capture_output=True, text=True)
        if r.returncode != 0:
            return (m['name'], 'patch-failed', None)
        res = {}
        for p in props:
            rd = tempfile.mkdtemp(prefix='replays-', dir='/tmp')
            env = dict(ENV, BBSIM_REPO=wt, BBSIM_REPLAYDIR=rd)
            out = subprocess.run(f"/verif/bin/bbsim check --prop {p} --runs {runs} --no-evidence", shell=True, cwd='/verif', env=env, capture_output=True, text=True)
            txt = out.stdout + out.stderr
            firsts = sorted(int(x) for x in re.findall(r'run_index=(\d+)', txt))
            res[p] = {"exit": out.returncode, "violations": len(re.findall(r'^VIOLATION', txt, re.M)), "checks": sorted(set(re.findall(r'check=(\S+)', txt))),
                      "first_run_index": firsts[0] if firsts else None, "runs": runs}
            shutil.rmtree(rd, ignore_errors=True)
        hist = m.get('history', [])
        hist.append({"at": m.get('validated_at'), "bbsim": m.get('bbsim'), "caught": m.get('caught')})
        m['history'] = hist
        m['bbsim'] = res
        m['caught'] = any(r['exit'] == 1 for r in res.values())
        m['validated_at'] = time.strftime('%Y-%m-%dT%H:%M:%SZ', time.gmtime())
        json.dump(m, open(mp, 'w'), indent=1)
        return (m['name'], 'caught' if m['caught'] else 'MISSED', {p: r['exit'] for p, r in res.items()})
    finally:
        subprocess.run(f"git -C /repo worktree remove --force {wt}", shell=True, capture_output=True)
        shutil.rmtree(wt, ignore_errors=True)
dirs = sorted(d for d in glob.glob('/verif/seeded/*') if os.path.basename(d).startswith(prefix))
with ThreadPoolExecutor(jobs) as ex:
    for r in ex.map(one, dirs):
        print(*r, flush=True)
