#!/usr/bin/env python3
"""Runs every hand-made mutant in /verif/mutants against the check of the property named in its file
name (Cxx-*.diff), records the verdicts in /verif/mutants/results.json. Usage: run_all_mutants.py [runs] [jobs] [prefix]"""
import json, os, re, subprocess, sys, glob
from concurrent.futures import ThreadPoolExecutor
runs = int(sys.argv[1]) if len(sys.argv) > 1 else 50000
jobs = int(sys.argv[2]) if len(sys.argv) > 2 else 3
prefix = sys.argv[3] if len(sys.argv) > 3 else ''
files = sorted(f for f in glob.glob('/verif/mutants/*.diff') if os.path.basename(f).startswith(prefix))
def one(f):
    prop = os.path.basename(f)[:3]
    out = subprocess.run(['/verif/tools/run_mutant.sh', f, prop, str(runs)], capture_output=True, text=True).stdout.strip()
    m = re.search(r'rc=(\d+) violations=(\d+)(?: check=(\S+))?', out)
    r = {"mutant": os.path.basename(f)[:-5], "property": prop, "runs": runs}
    if m:
        r.update(exit=int(m.group(1)), violations=int(m.group(2)), first_check=m.group(3))
        mi = re.search(r'run_index=(\d+)', out)
        if mi: r['a_run_index'] = int(mi.group(1))
    else:
        r.update(exit=-1, raw=out[-300:])
    print(out.splitlines()[0] if out else f, flush=True)
    return r
with ThreadPoolExecutor(jobs) as ex:
    res = list(ex.map(one, files))
p = '/verif/mutants/results.json'
old = {}
if os.path.exists(p):
    old = {r['mutant']: r for r in json.load(open(p))}
for r in res:
    old[r['mutant']] = r
json.dump(sorted(old.values(), key=lambda r: r['mutant']), open(p, 'w'), indent=1)
missed = [r['mutant'] for r in res if r.get('exit') != 1]
print("missed:", missed)
