#!/usr/bin/env python3
"""Regenerates the tables between the SENSITIVITY-TABLES markers of DESIGN.md from
mutants/results.json and seeded/*/meta.json."""
import json, glob, os, re
out = []
res = json.load(open('/verif/mutants/results.json')) if os.path.exists('/verif/mutants/results.json') else []
byp = {}
for r in res:
    byp.setdefault(r['property'], []).append(r)
out.append("### Hand-made changes (`mutants/`, %d files, %d runs each)\n" % (len(res), res[0]['runs'] if res else 0))
out.append("| property | caught / total | check ids that fired first | not caught |")
out.append("|---|---|---|---|")
for p in sorted(byp):
    rs = byp[p]
    caught = [r for r in rs if r.get('exit') == 1]
    missed = [r['mutant'] for r in rs if r.get('exit') != 1]
    checks = sorted(set(r['first_check'] for r in caught if r.get('first_check')))
    out.append("| %s | %d / %d | %s | %s |" % (p, len(caught), len(rs), ", ".join("`%s`" % c for c in checks), ", ".join(missed) or "-"))
out.append("")
metas = []
for f in sorted(glob.glob('/verif/seeded/*/meta.json')):
    metas.append(json.load(open(f)))
out.append("### Seeded changes from independent sub-agents (`seeded/`, %d kept)\n" % len(metas))
out.append("| id | what it changes / needs (from the author's notes) | baseline tests with the change | demo fails with / without | verdict of our checks (latest) | earlier verdicts |")
out.append("|---|---|---|---|---|---|")
for m in metas:
    note = m.get('summary', '')
    demo = m.get('demo', {})
    d = "%s / %s" % (demo.get('fails_with_change', '?'), demo.get('fails_without_change', '?')) if 'fails_with_change' in demo else 'see NOTES.md'
    ver = []
    for p, r in m.get('bbsim', {}).items():
        if r['exit'] == 1:
            ver.append("%s **caught** (%s; first run %s of %d)" % (p, ", ".join("`%s`" % c for c in r['checks']), r['first_run_index'], r['runs']))
        else:
            ver.append("%s exit %d (missed)" % (p, r['exit']))
    hist = []
    for h in m.get('history', []):
        for p, r in h.get('bbsim', {}).items():
            hist.append("%s %s" % (p, "caught" if r['exit'] == 1 else ("missed" if r['exit'] == 0 else "exit 2")))
    out.append("| %s | %s | %s | %s | %s | %s |" % (m['name'], note, "all 254 pass" if not m.get('baseline_failures_with_change') else "fail: " + ", ".join(m['baseline_failures_with_change']),
                                           d, "; ".join(ver), "; ".join(hist) or "-"))
txt = "\n".join(out) + "\n"
p = '/verif/DESIGN.md'
s = open(p).read()
a = s.index("<!-- SENSITIVITY-TABLES-BEGIN -->") + len("<!-- SENSITIVITY-TABLES-BEGIN -->\n")
b = s.index("<!-- SENSITIVITY-TABLES-END -->")
open(p, 'w').write(s[:a] + txt + s[b:])
print("tables written: %d mutants, %d seeded" % (len(res), len(metas)))
