#!/usr/bin/env python3
"""Prints the prompt given to an independent sub-agent that seeds property-breaking changes.
The agent sees only the property text and its own worktree, nothing from /verif."""
import json, sys
pid = sys.argv[1]
n = int(sys.argv[2]) if len(sys.argv) > 2 else 3
extra = sys.argv[3] if len(sys.argv) > 3 else ""
props = {}
for l in open('/verif/properties.jsonl'):
    p = json.loads(l); props[p['id']] = p
p = props[pid]
print(f"""You are helping to evaluate a verification tool by planting realistic bugs in a Go library. You have your own scratch git worktree of the library joeycumines/go-bigbuff at /tmp/wt-{pid} (Go module github.com/joeycumines/go-bigbuff; concurrency primitives: Buffer with commit/rollback consumers, Channel consumer, ChanCaster/ChanPubSub broadcast, Exclusive keyed debouncer, Workers pool, Worker, Notifier, context utilities, ExponentialRetry, LinearAttempt). Work ONLY inside /tmp/wt-{pid} and your output directory /tmp/seed-out/ (create it). Do not read or write anything under /verif or /repo. There is no network; use the default `go` toolchain (go 1.23).

The library is supposed to satisfy this property:

  TITLE: {p['title']}

  STATEMENT: {p['statement']}

  QUANTIFIED OVER: {p['quantifier']['text']}

Your task: produce {n} DIFFERENT changes to the library's non-test source (each a small, realistic edit such as a maintainer could plausibly make by mistake in a refactoring or "optimisation") such that each change

  1. BREAKS the property above (some program allowed by the property's quantifier observes behaviour the statement forbids),
  2. still COMPILES (`go build ./...` and `go vet ./...` clean apart from pre-existing vet complaints),
  3. still PASSES the library's existing test suite: run `go test -vet=off -count=1 -timeout 25m ./...` (takes ~50 s). Known pre-existing exceptions you may ignore: TestChanCaster_Send_waitForNextFullCycle always fails; TestChanPubSub_highContention, TestExclusive_CallAfter, TestExclusive_Call_concurrent and TestChannel_Get are flaky. Every other test must pass with your change (run the suite at least twice),
  4. needs something SPECIFIC to manifest: a particular interleaving of goroutines, a cancellation/close/timer landing at a particular point, a multi-step sequence of operations, an unusual input or configuration, or two cooperating edits that each look harmless alone. Do NOT produce changes that ordinary sequential use would expose at once, and do not produce changes that make the code panic or deadlock on the first call. Subtle is better than blatant. The {n} changes must differ from each other in mechanism (different code sites / different failure modes), not be variations of one idea.

For each change k = 1..{n} create the directory /tmp/seed-out/{pid}-k/ containing:
  - patch.diff : output of `git diff` in the worktree (must apply to a clean checkout with `git apply`),
  - a demonstration: either demo_test.go (a Go test file that is copied into the repository root, package bigbuff, and run with `go test -vet=off -count=1 -run <TestName> .`) or a small main program with instructions. The demonstration must FAIL (or print a clear FAIL line) WITH the change and PASS WITHOUT it, reliably (you may force the needed interleaving in the demo with sleeps, hooks reachable from a _test.go file in the same package, GOMAXPROCS, many iterations, etc. — the demo may be white-box; the change itself must not add test hooks). Say how many times out of how many it failed with the change and without.
  - NOTES.md : which part of the statement is violated, the mechanism, exactly what is needed for it to manifest (interleaving / fault / sequence / input), the commands you ran and their results (build, vet, full test suite twice, demo with and without the change).
After finishing each change, restore the worktree with `git checkout -- . && git clean -fdq` before starting the next one, so every patch is against the pristine tree.
{extra}
Your final message: a short table of the {n} changes (directory, one-line description, what it needs to manifest, demo failure rate with/without), and anything you could not get to work. Be honest: if a change turned out to be equivalent (does not really break the property) or the test suite catches it, say so and replace it with another.""")
