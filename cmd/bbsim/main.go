// Command bbsim is the driver: it instruments /repo's current working tree into a scratch module,
// builds the harness test binary with the simulation toolchain, fans seeded runs out over worker
// processes, re-verifies every reported violation by replaying its minimised file in a fresh
// process, applies the known-findings file, and writes the evidence file.
//
// Exit codes: 0 property held on everything explored (KNOWN-FINDING lines allowed);
// 1 at least one VIOLATION line; 2 infrastructure trouble (never reported as a violation).
package main

import (
	"bufio"
	"encoding/json"
	"flag"
	"fmt"
	"os"
	"os/exec"
	"path/filepath"
	"runtime"
	"sort"
	"strconv"
	"strings"
	"sync"
	"time"

	"bbsim/instr"
)

var (
	verifDir = envOr("BBSIM_VERIF", "/verif")
	repoDir  = envOr("BBSIM_REPO", "/repo")
)

const goBin = "go1.26.8"

// replayDir is where violation replay files are written ($BBSIM_REPLAYDIR lets concurrent development
// runs of the same property keep their files apart).
func replayDir() string { return envOr("BBSIM_REPLAYDIR", filepath.Join(verifDir, "replays")) }

// repoGoRoot is the GOROOT of the toolchain the repository itself is built and tested with: the
// default `go`, asked from inside /repo with toolchain switching off.
func repoGoRoot() ([]byte, error) {
	cmd := exec.Command("go", "env", "GOROOT")
	cmd.Dir = repoDir
	cmd.Env = append(os.Environ(), "GOTOOLCHAIN=local")
	return cmd.Output()
}

func envOr(k, d string) string {
	if v := os.Getenv(k); v != "" {
		return v
	}
	return d
}

type tierCfg struct {
	runs  int
	wallS float64
}

// per-property run counts (quick, thorough); wall caps are safety nets only.
var tiers = map[string][2]tierCfg{}

func tierFor(prop, tier string) tierCfg {
	// run counts are fixed per tier (reproducible for a given VERIF_SEED); the wall caps are safety nets
	q := tierCfg{runs: 200000, wallS: 150}
	t := tierCfg{runs: 6000000, wallS: 1200}
	switch prop {
	case "C02", "C13":
		q.runs, t.runs = 100000, 3000000
	case "C11":
		q.runs, t.runs = 60000, 1500000
	}
	if v, ok := tiers[prop]; ok {
		q, t = v[0], v[1]
	}
	if tier == "thorough" {
		return t
	}
	return q
}

func goEnv() []string {
	env := os.Environ()
	env = append(env, "GOFLAGS=-mod=mod", "GOPROXY=off", "GOSUMDB=off", "GOTOOLCHAIN=local", "GONOSUMDB=*", "GONOSUMCHECK=1")
	return env
}

func die(code int, format string, args ...any) {
	fmt.Fprintf(os.Stderr, "bbsim: "+format+"\n", args...)
	os.Exit(code)
}

func main() {
	if len(os.Args) < 2 {
		die(2, "usage: bbsim check|replay|setup|props ...")
	}
	switch os.Args[1] {
	case "check":
		os.Exit(cmdCheck(os.Args[2:]))
	case "replay":
		os.Exit(cmdReplay(os.Args[2:]))
	case "setup":
		os.Exit(cmdSetup())
	case "selftest":
		os.Exit(cmdSelftest(os.Args[2:]))
	default:
		die(2, "unknown command %q", os.Args[1])
	}
}

// buildScratch instruments and compiles; returns the scratch dir and the test binary path.
func buildScratch(race bool) (string, string, map[string]int, error) {
	scratch, err := os.MkdirTemp("", "bbsim-")
	if err != nil {
		return "", "", nil, err
	}
	// the context package that is simulated is the one of the repository's own toolchain (the default
	// `go`, with which /repo builds and its tests run), not the one of the simulation toolchain
	goroot, err := repoGoRoot()
	if err != nil {
		return scratch, "", nil, fmt.Errorf("go env GOROOT: %w", err)
	}
	modcache, _ := exec.Command(goBin, "env", "GOMODCACHE").Output()
	stats, err := instr.BuildScratch(instr.Scratch{RepoDir: repoDir, VerifDir: verifDir, GoRoot: strings.TrimSpace(string(goroot)),
		OutDir: scratch, HarnessDir: filepath.Join(verifDir, "harness"), ModCache: strings.TrimSpace(string(modcache))})
	if err != nil {
		return scratch, "", nil, err
	}
	bin := filepath.Join(scratch, "h.test")
	args := []string{"test", "-c", "-vet=off", "-o", bin}
	if race {
		// the simulator and the shims are compiled without race instrumentation and without
		// inlining into instrumented callers: their state is the scheduler's, not the program's
		args = append(args, "-race", "-gcflags=bbsim/simrt=-race=false -l", "-gcflags=bbsim/shim/...=-race=false -l")
	}
	args = append(args, "./harness")
	cmd := exec.Command(goBin, args...)
	cmd.Dir = scratch
	cmd.Env = goEnv()
	if out, err := cmd.CombinedOutput(); err != nil {
		return scratch, "", nil, fmt.Errorf("build of the instrumented harness failed: %v\n%s", err, out)
	}
	return scratch, bin, stats, nil
}

func cmdSetup() int {
	scratch, _, _, err := buildScratch(false)
	if scratch != "" {
		defer os.RemoveAll(scratch)
	}
	if err != nil {
		fmt.Fprintln(os.Stderr, "bbsim setup:", err)
		return 2
	}
	return 0
}

type violation struct {
	Kind     string `json:"kind"`
	Prop     string `json:"prop"`
	Harness  string `json:"harness"`
	Check    string `json:"check"`
	Msg      string `json:"msg"`
	Replay   string `json:"replay"`
	RunIndex int    `json:"run_index"`
}

type summary struct {
	Kind        string         `json:"kind"`
	Runs        int            `json:"runs"`
	Steps       int64          `json:"steps"`
	SimTimeNs   int64          `json:"sim_time_ns"`
	Switches    int64          `json:"switches"`
	TimersFired int64          `json:"timers_fired"`
	Probes      map[string]int `json:"probes"`
	Faults      map[string]int `json:"faults"`
	Anomalies   map[string]int `json:"anomalies"`
	PerHarness  map[string]int `json:"per_harness"`
	Strategies  map[string]int `json:"strategies"`
	Hashes      []string       `json:"nontrivial_hashes"`
	Nontrivial  int            `json:"nontrivial_runs"`
	SwitchPairs map[string]int `json:"switch_pairs"`
	DetChecks   int            `json:"determinism_rechecks"`
	DetFail     []string       `json:"determinism_failures"`
	Violations  int            `json:"violations"`
	KnownRuns   int            `json:"known_finding_runs"`
	MaxSteps    int            `json:"max_steps_in_a_run"`
	WallS       float64        `json:"wall_s"`
	Samples     []any          `json:"samples"`
	Inconcl     int            `json:"inconclusive"`
}

type knownFinding struct {
	Status   string `json:"status"` // "known" or "fixed"
	Property string `json:"property"`
	Check    string `json:"check"`
	Harness  string `json:"harness"`
	Contains string `json:"message_contains"`
	Commit   string `json:"commit,omitempty"`
	What     string `json:"what"`
}

func loadKnown() []knownFinding {
	b, err := os.ReadFile(filepath.Join(verifDir, "known_findings.json"))
	if err != nil {
		return nil
	}
	var v struct {
		Findings []knownFinding `json:"findings"`
	}
	if err := json.Unmarshal(b, &v); err != nil {
		die(2, "known_findings.json: %v", err)
	}
	return v.Findings
}

func addMap(dst, src map[string]int) {
	for k, v := range src {
		dst[k] += v
	}
}

func cmdCheck(args []string) int {
	fs := flag.NewFlagSet("check", flag.ExitOnError)
	prop := fs.String("prop", "", "property id")
	tier := fs.String("tier", "", "quick|thorough (default: $VERIF_TIER or quick)")
	runsF := fs.Int("runs", 0, "override the number of runs")
	wallF := fs.Float64("wall", 0, "override the wall-clock cap (s)")
	workers := fs.Int("workers", runtime.NumCPU(), "worker processes")
	race := fs.Bool("race", false, "build with the race detector")
	keep := fs.Bool("keep", false, "keep the scratch directory")
	noEvidence := fs.Bool("no-evidence", false, "do not write the evidence file")
	fs.Parse(args)
	if *prop == "" {
		die(2, "check: --prop required")
	}
	if *tier == "" {
		*tier = os.Getenv("VERIF_TIER")
	}
	if *tier != "thorough" {
		*tier = "quick"
	}
	seed := uint64(1)
	if s := os.Getenv("VERIF_SEED"); s != "" {
		v, err := strconv.ParseInt(s, 10, 64)
		if err != nil {
			die(2, "VERIF_SEED: %v", err)
		}
		seed = uint64(v)
	}
	fmt.Printf("bbsim: property=%s tier=%s VERIF_SEED=%d\n", *prop, *tier, int64(seed))
	tc := tierFor(*prop, *tier)
	if *runsF > 0 {
		tc.runs = *runsF
	}
	if *wallF > 0 {
		tc.wallS = *wallF
	}
	start := time.Now()
	isRace := *race || *prop == "C11"
	scratch, bin, istats, err := buildScratch(isRace)
	if scratch != "" && !*keep {
		defer os.RemoveAll(scratch)
	}
	if err != nil {
		fmt.Fprintln(os.Stderr, "bbsim: infrastructure:", err)
		return 2
	}
	buildS := time.Since(start).Seconds()
	os.MkdirAll(replayDir(), 0o755)
	os.MkdirAll(filepath.Join(verifDir, "evidence"), 0o755)

	// the listed (unrepaired) findings of this property, for the workers: a run that matches one is
	// counted and does not stop the worker
	knownFile := ""
	{
		type ke struct {
			Check    string `json:"check"`
			Harness  string `json:"harness"`
			Contains string `json:"message_contains"`
		}
		var ks []ke
		for _, k := range loadKnown() {
			if k.Status == "known" && k.Property == *prop {
				ks = append(ks, ke{k.Check, k.Harness, k.Contains})
			}
		}
		if len(ks) > 0 {
			b, _ := json.Marshal(ks)
			knownFile = filepath.Join(scratch, "known.json")
			if err := os.WriteFile(knownFile, b, 0o644); err != nil {
				die(2, "%v", err)
			}
		}
	}
	W := *workers
	if W > tc.runs {
		W = tc.runs
	}
	per := (tc.runs + W - 1) / W
	var wg sync.WaitGroup
	outs := make([]string, W)
	errs := make([]error, W)
	logs := make([]string, W)
	for w := 0; w < W; w++ {
		w := w
		outs[w] = filepath.Join(scratch, fmt.Sprintf("out.%d.jsonl", w))
		wg.Add(1)
		go func() {
			defer wg.Done()
			cmd := exec.Command(bin, "-test.run", "^TestWorker$", "-test.timeout", "0", "-test.cpu", "1",
				"-prop", *prop, "-seed", strconv.FormatUint(seed, 10), "-from", strconv.Itoa(w), "-stride", strconv.Itoa(W),
				"-count", strconv.Itoa(per), "-wall", fmt.Sprint(tc.wallS), "-out", outs[w], "-replaydir", replayDir(), "-tier", *tier, "-known", knownFile)
			rl := filepath.Join(scratch, fmt.Sprintf("race.%d", w))
			cmd.Env = append(os.Environ(), "GOMAXPROCS=2", "GORACE=halt_on_error=0 log_path="+rl, "BBSIM_RACELOG="+rl)
			// watchdog: a worker that outlives its wall cap by far is infrastructure trouble
			done := make(chan struct{})
			var out []byte
			var err error
			go func() { out, err = cmd.CombinedOutput(); close(done) }()
			select {
			case <-done:
			case <-time.After(time.Duration(tc.wallS*2+300) * time.Second):
				cmd.Process.Kill()
				<-done
				err = fmt.Errorf("watchdog: worker %d killed", w)
			}
			errs[w] = err
			logs[w] = string(out)
		}()
	}
	wg.Wait()

	total := summary{Probes: map[string]int{}, Faults: map[string]int{}, Anomalies: map[string]int{}, PerHarness: map[string]int{},
		Strategies: map[string]int{}, SwitchPairs: map[string]int{}}
	hashes := map[string]bool{}
	var viols []violation
	infra := []string{}
	for w := 0; w < W; w++ {
		f, err := os.Open(outs[w])
		if err != nil {
			infra = append(infra, fmt.Sprintf("worker %d produced no output (%v): %s", w, errs[w], tail(logs[w], 2000)))
			continue
		}
		sc := bufio.NewScanner(f)
		sc.Buffer(make([]byte, 1<<20), 1<<28)
		gotSummary := false
		for sc.Scan() {
			line := sc.Bytes()
			var kind struct {
				Kind string `json:"kind"`
			}
			if json.Unmarshal(line, &kind) != nil {
				continue
			}
			switch kind.Kind {
			case "violation":
				var v violation
				json.Unmarshal(line, &v)
				viols = append(viols, v)
			case "infra":
				infra = append(infra, string(line))
			case "summary":
				var s summary
				if err := json.Unmarshal(line, &s); err != nil {
					infra = append(infra, "bad summary: "+err.Error())
					continue
				}
				gotSummary = true
				total.Runs += s.Runs
				total.Steps += s.Steps
				total.SimTimeNs += s.SimTimeNs
				total.Switches += s.Switches
				total.TimersFired += s.TimersFired
				total.Nontrivial += s.Nontrivial
				total.DetChecks += s.DetChecks
				total.DetFail = append(total.DetFail, s.DetFail...)
				total.Inconcl += s.Inconcl
				total.KnownRuns += s.KnownRuns
				if s.MaxSteps > total.MaxSteps {
					total.MaxSteps = s.MaxSteps
				}
				addMap(total.Probes, s.Probes)
				addMap(total.Faults, s.Faults)
				addMap(total.Anomalies, s.Anomalies)
				addMap(total.PerHarness, s.PerHarness)
				addMap(total.Strategies, s.Strategies)
				addMap(total.SwitchPairs, s.SwitchPairs)
				for _, h := range s.Hashes {
					hashes[h] = true
				}
				if len(total.Samples) < 3 {
					total.Samples = append(total.Samples, s.Samples...)
				}
			}
		}
		f.Close()
		if !gotSummary {
			infra = append(infra, fmt.Sprintf("worker %d did not finish (%v): %s", w, errs[w], tail(logs[w], 3000)))
		}
	}
	if len(total.DetFail) > 0 {
		infra = append(infra, "nondeterminism detected: "+strings.Join(total.DetFail, "; "))
	}
	// race reports (C11 / --race): every report file is a finding of the race detector
	raceReports := 0
	if isRace {
		m, _ := filepath.Glob(filepath.Join(scratch, "race.*"))
		raceReports = len(m)
	}
	_ = raceReports

	// re-verify violations in fresh processes, then classify against the known-findings file
	known := loadKnown()
	sort.Slice(viols, func(i, j int) bool { return viols[i].RunIndex < viols[j].RunIndex })
	exit := 0
	reported := 0
	knownHits := map[int]bool{}
	// at most 3 violations per check id and 12 in total are re-verified (in parallel) and reported;
	// the rest are counted
	perCheck := map[string]int{}
	var chosen []violation
	skipped := 0
	isKnown := func(v violation) bool {
		for _, k := range known {
			if k.Status == "known" && k.Property == *prop && k.Check == v.Check && (k.Harness == "" || k.Harness == v.Harness) &&
				(k.Contains == "" || strings.Contains(v.Msg, k.Contains)) {
				return true
			}
		}
		return false
	}
	skippedKnown := 0
	// violations that match no listed finding come first and have the budget to themselves (3 per check
	// id, 12 in all); of those that match a listed finding, the earliest of each harness/check pair is
	// re-verified so that its KNOWN-FINDING line is backed by a replay
	for _, v := range viols {
		if isKnown(v) {
			continue
		}
		if perCheck[v.Check] >= 3 || len(chosen) >= 12 {
			skipped++
			continue
		}
		perCheck[v.Check]++
		chosen = append(chosen, v)
	}
	knownSeenPair := map[string]int{}
	for _, v := range viols {
		if !isKnown(v) {
			continue
		}
		if knownSeenPair[v.Harness+"|"+v.Check] >= 3 {
			skippedKnown++
			continue
		}
		knownSeenPair[v.Harness+"|"+v.Check]++
		chosen = append(chosen, v)
	}
	type rv struct {
		ok     bool
		detail string
	}
	results := make([]rv, len(chosen))
	var rwg sync.WaitGroup
	sem := make(chan struct{}, 8)
	for i, v := range chosen {
		i, v := i, v
		rwg.Add(1)
		go func() {
			defer rwg.Done()
			sem <- struct{}{}
			defer func() { <-sem }()
			ok, detail := replayOnce(bin, v.Replay)
			for try := 0; !ok && isRace && try < 4; try++ {
				// the race detector's shadow memory is bounded and its eviction is not seeded: a report can be
				// missed on an identical execution, so a race violation gets a few fresh processes to recur
				ok, detail = replayOnce(bin, v.Replay)
			}
			results[i] = rv{ok, detail}
		}()
	}
	rwg.Wait()
	for i, v := range chosen {
		if !results[i].ok {
			infra = append(infra, fmt.Sprintf("violation %s of run %d did not replay identically in a fresh process: %s", v.Check, v.RunIndex, results[i].detail))
			continue
		}
		matched := false
		for i, k := range known {
			if k.Status == "known" && k.Property == *prop && k.Check == v.Check && (k.Harness == "" || k.Harness == v.Harness) &&
				(k.Contains == "" || strings.Contains(v.Msg, k.Contains)) {
				matched = true
				if !knownHits[i] {
					knownHits[i] = true
					fmt.Printf("KNOWN-FINDING: property=%s %s\n", *prop, k.What)
				}
				break
			}
		}
		if matched {
			continue
		}
		reported++
		exit = 1
		fmt.Printf("VIOLATION property=%s replay=%s\n", *prop, v.Replay)
		fmt.Printf("  check=%s harness=%s run_index=%d\n  %s\n", v.Check, v.Harness, v.RunIndex, strings.ReplaceAll(firstLines(v.Msg, 14), "\n", "\n  "))
	}
	if skipped > 0 {
		fmt.Printf("bbsim: %d further violating runs were found (replay files written) but not re-verified individually\n", skipped)
	}
	if total.KnownRuns > 0 {
		fmt.Printf("bbsim: %d runs in all matched a listed known finding (%d replay files written, %d of them not re-verified individually)\n", total.KnownRuns, len(viols)-skipped-reported, skippedKnown)
	}
	wall := time.Since(start).Seconds()
	if len(infra) > 0 {
		for _, m := range infra {
			fmt.Fprintln(os.Stderr, "bbsim: infrastructure:", m)
		}
		if exit == 0 {
			exit = 2
		}
	}
	if total.Runs == 0 && exit == 0 {
		fmt.Fprintln(os.Stderr, "bbsim: infrastructure: no runs were executed")
		exit = 2
	}

	if !*noEvidence && exit != 2 {
		writeEvidence(*prop, *tier, int64(seed), total, len(hashes), reported, wall, buildS, istats, W, isRace)
	}
	fmt.Printf("bbsim: %s %s: %d runs, %d steps, %d distinct non-trivial traces, %d violations, %.1fs (build %.1fs)\n",
		*prop, *tier, total.Runs, total.Steps, len(hashes), reported, wall, buildS)
	return exit
}

func tail(s string, n int) string {
	if len(s) > n {
		return s[len(s)-n:]
	}
	return s
}

func firstLines(s string, n int) string {
	l := strings.Split(s, "\n")
	if len(l) > n {
		l = l[:n]
	}
	return strings.Join(l, "\n")
}

func replayOnce(bin, path string) (bool, string) {
	cmd := exec.Command(bin, "-test.run", "^TestWorker$", "-test.timeout", "0", "-replay", path)
	rl := filepath.Join(filepath.Dir(bin), fmt.Sprintf("race.replay.%d", time.Now().UnixNano()))
	cmd.Env = append(os.Environ(), "GORACE=halt_on_error=0 log_path="+rl, "BBSIM_RACELOG="+rl)
	out, err := cmd.CombinedOutput()
	for _, line := range strings.Split(string(out), "\n") {
		if strings.HasPrefix(line, "{") && strings.Contains(line, `"kind":"replay"`) {
			var r struct {
				Same  bool   `json:"same"`
				Check string `json:"check"`
				Hash  string `json:"hash"`
			}
			if json.Unmarshal([]byte(line), &r) == nil {
				return r.Same, fmt.Sprintf("check=%q hash=%s", r.Check, r.Hash)
			}
		}
	}
	return false, fmt.Sprintf("no replay result (%v): %s", err, tail(string(out), 1500))
}

func cmdReplay(args []string) int {
	if len(args) < 1 {
		die(2, "usage: bbsim replay <file> [-v]")
	}
	path := args[0]
	b, err := os.ReadFile(path)
	if err != nil {
		die(2, "%v", err)
	}
	var rf struct {
		Property string `json:"property"`
	}
	json.Unmarshal(b, &rf)
	scratch, bin, _, err := buildScratch(rf.Property == "C11")
	if scratch != "" {
		defer os.RemoveAll(scratch)
	}
	if err != nil {
		fmt.Fprintln(os.Stderr, "bbsim: infrastructure:", err)
		return 2
	}
	a := []string{"-test.run", "^TestWorker$", "-test.timeout", "0", "-replay", path}
	if len(args) > 1 && args[1] == "-v" {
		a = append(a, "-v2")
	}
	if v := os.Getenv("BBSIM_REPLAY_MAXSTEPS"); v != "" { // development aid: replay a budget violation with a larger budget
		a = append(a, "-maxsteps", v)
	}
	cmd := exec.Command(bin, a...)
	rl := filepath.Join(scratch, "race.replay")
	cmd.Env = append(os.Environ(), "GORACE=halt_on_error=0 log_path="+rl, "BBSIM_RACELOG="+rl)
	out, _ := cmd.CombinedOutput()
	fmt.Print(string(out))
	for _, line := range strings.Split(string(out), "\n") {
		if strings.HasPrefix(line, "{") && strings.Contains(line, `"kind":"replay"`) {
			var r struct {
				Same  bool   `json:"same"`
				Check string `json:"check"`
			}
			if json.Unmarshal([]byte(line), &r) == nil {
				if r.Check != "" {
					fmt.Printf("VIOLATION property=%s replay=%s\n", rf.Property, path)
					return 1
				}
				return 0
			}
		}
	}
	return 2
}

func topN(m map[string]int, n int) map[string]int {
	type kv struct {
		k string
		v int
	}
	var l []kv
	for k, v := range m {
		l = append(l, kv{k, v})
	}
	sort.Slice(l, func(i, j int) bool {
		if l[i].v != l[j].v {
			return l[i].v > l[j].v
		}
		return l[i].k < l[j].k
	})
	out := map[string]int{}
	for i := 0; i < len(l) && i < n; i++ {
		out[l[i].k] = l[i].v
	}
	return out
}

func writeEvidence(prop, tier string, seed int64, t summary, distinct, violations int, wall, buildS float64, istats map[string]int, workers int, race bool) {
	runWall := wall - buildS
	if runWall <= 0 {
		runWall = wall
	}
	cov := map[string]any{
		"evaluations":         t.Runs,
		"distinct_nontrivial": distinct,
		"rule": "one evaluation = one seeded simulated execution of a generated program of the property's harness against the instrumented library " +
			"(program and schedule choice vectors derived from VERIF_SEED and the run index); a run is non-trivial when at least two tasks " +
			"ran, the scheduler switched tasks at least twice, and at least one fault or rare-condition probe fired; distinct = distinct hashes " +
			"over the full scheduling trace (step, task, kind, site of every scheduling decision and timer event) among the non-trivial runs",
		"samples":                      t.Samples,
		"nontrivial_runs":              t.Nontrivial,
		"scheduling_steps":             t.Steps,
		"max_steps_in_a_run":           t.MaxSteps,
		"context_switches":             t.Switches,
		"distinct_switch_site_pairs":   len(t.SwitchPairs),
		"simulated_time_s":             float64(t.SimTimeNs) / 1e9,
		"timers_fired":                 t.TimersFired,
		"runs_per_hour":                int(float64(t.Runs) / runWall * 3600),
		"seeds_per_hour":               int(float64(t.Runs) / runWall * 3600),
		"faults_fired":                 t.Faults,
		"probes":                       t.Probes,
		"anomalies":                    t.Anomalies,
		"runs_per_harness":             t.PerHarness,
		"strategy_mix":                 t.Strategies,
		"determinism_rechecks":         t.DetChecks,
		"determinism_failures":         len(t.DetFail),
		"known_finding_runs":           t.KnownRuns,
		"inconclusive_linearizability": t.Inconcl,
		"workers":                      workers,
		"build_s":                      buildS,
		"race_detector":                race,
		"instrumentation_sites":        istats,
		"top_switch_site_pairs":        topN(t.SwitchPairs, 12),
		"real_vs_stub": map[string]string{
			"go-bigbuff (working tree, non-test files)": "real code, instrumented by the generic source pass",
			"context": "real Go 1.26.8 context.go, same pass",
			"channels, select blocking, reflect, maps": "real runtime inside one testing/synctest bubble",
			"sync.Mutex/RWMutex/Cond/Once/WaitGroup":   "stub: ports of the documented algorithms on simulator wait-sets",
			"sync/atomic":                              "scheduling point + the real atomic",
			"time":                                     "stub: discrete-event clock",
			"math/rand":                                "stub: schedule choice stream",
			"goroutine scheduler":                      "stub: seeded scheduler, one task at a time",
		},
	}
	ev := map[string]any{
		"property_id": prop, "tier": tier, "seed": seed, "level": "exploration", "coverage": cov,
		"assumptions": []string{
			"sequentially consistent execution of data-race-free code (C11 checks race freedom separately)",
			"sync primitives behave as documented; mutex starvation mode and real timer granularity are not modelled",
			"harness clients stay inside the documented contracts unless a misuse fault is injected",
			"sampling, not enumeration: a clean batch is evidence, not proof",
		},
		"wall_s": wall, "violations": violations,
	}
	b, _ := json.MarshalIndent(ev, "", " ")
	os.WriteFile(filepath.Join(verifDir, "evidence", prop+".json"), b, 0o644)
}

// cmdSelftest validates the simulator itself.
//
//	bbsim selftest passthrough   the library's own test-suite, instrumented by the same pass, must pass
//	                             with the shims delegating to the real primitives (no simulation active)
//	bbsim selftest shims         unit tests of the sync/time stubs against the documented semantics (under many seeds)
//	bbsim selftest determinism   every harness: the same seeds give identical trace hashes in separate
//	                             processes at GOMAXPROCS 1, 4 and 16
func cmdSelftest(args []string) int {
	if len(args) < 1 {
		die(2, "usage: bbsim selftest passthrough|determinism")
	}
	switch args[0] {
	case "passthrough":
		return selftestPassthrough()
	case "determinism":
		return selftestDeterminism(args[1:])
	case "shims":
		// the stubs against the documented semantics of the primitives they replace, under the simulator
		cmd := exec.Command(goBin, "test", "-count=1", "./shim/...", "./simrt/...")
		cmd.Dir = verifDir
		cmd.Env = goEnv()
		out, err := cmd.CombinedOutput()
		fmt.Print(string(out))
		if err != nil {
			return 1
		}
		return 0
	}
	die(2, "unknown selftest %q", args[0])
	return 2
}

func selftestPassthrough() int {
	scratch, err := os.MkdirTemp("", "bbsim-pt-")
	if err != nil {
		die(2, "%v", err)
	}
	defer os.RemoveAll(scratch)
	goroot, _ := repoGoRoot()
	modcache, _ := exec.Command(goBin, "env", "GOMODCACHE").Output()
	if _, err := instr.BuildScratch(instr.Scratch{RepoDir: repoDir, VerifDir: verifDir, GoRoot: strings.TrimSpace(string(goroot)),
		OutDir: scratch, ModCache: strings.TrimSpace(string(modcache)), WithTests: true}); err != nil {
		fmt.Fprintln(os.Stderr, "bbsim: infrastructure:", err)
		return 2
	}
	cmd := exec.Command(goBin, "test", "-json", "-vet=off", "-count=1", "-timeout", "25m", "./bigbuff")
	cmd.Dir = scratch
	cmd.Env = append(goEnv(), "GODEBUG=randseednop=0") // the library's tests seed math/rand (go 1.23 semantics)
	out, _ := cmd.Output()
	status := map[string]string{}
	for _, line := range strings.Split(string(out), "\n") {
		var ev struct {
			Action, Test string
		}
		if json.Unmarshal([]byte(line), &ev) == nil && ev.Test != "" && (ev.Action == "pass" || ev.Action == "fail" || ev.Action == "skip") {
			status[ev.Test] = ev.Action
		}
	}
	b, err := os.ReadFile("/root/.vp/BASELINE.json")
	if err != nil {
		die(2, "%v", err)
	}
	var base struct {
		Stable []string `json:"stable_pass"`
	}
	json.Unmarshal(b, &base)
	bad, examples := 0, 0
	for _, name := range base.Stable {
		n := name[strings.Index(name, "::")+2:]
		if strings.HasPrefix(n, "Example") && status[n] == "" {
			examples++ // the pass strips comments, so "// Output:" is gone and examples are compiled but not run
			continue
		}
		if status[n] != "pass" {
			fmt.Printf("passthrough: %s = %q on the instrumented copy\n", n, status[n])
			bad++
		}
	}
	fmt.Printf("passthrough: %d/%d baseline tests pass on the instrumented copy (shims delegating to the real primitives); %d examples compiled but not run (comments stripped)\n",
		len(base.Stable)-bad-examples, len(base.Stable)-examples, examples)
	if bad > 0 {
		return 1
	}
	return 0
}

func selftestDeterminism(args []string) int {
	runs := 400
	if len(args) > 0 {
		runs, _ = strconv.Atoi(args[0])
	}
	scratch, bin, _, err := buildScratch(false)
	if scratch != "" {
		defer os.RemoveAll(scratch)
	}
	if err != nil {
		fmt.Fprintln(os.Stderr, "bbsim: infrastructure:", err)
		return 2
	}
	props := []string{}
	for i := 1; i <= 20; i++ {
		props = append(props, fmt.Sprintf("C%02d", i))
	}
	bad := 0
	for _, p := range props {
		if p == "C11" || p == "C19" {
			continue
		}
		var ref string
		for _, g := range []string{"1", "4", "16"} {
			cmd := exec.Command(bin, "-test.run", "^TestWorker$", "-test.timeout", "0", "-prop", p, "-count", strconv.Itoa(runs), "-v2",
				"-detevery", "0", "-out", os.DevNull, "-replaydir", scratch, "-minimize", "0", "-maxviol", "1000000")
			cmd.Env = append(os.Environ(), "GOMAXPROCS="+g)
			out, _ := cmd.CombinedOutput()
			var lines []string
			for _, l := range strings.Split(string(out), "\n") {
				if strings.HasPrefix(l, "run ") {
					lines = append(lines, l)
				}
			}
			got := strings.Join(lines, "\n")
			if len(lines) == 0 {
				fmt.Printf("determinism: %s: no harness / no runs\n", p)
				break
			}
			if ref == "" {
				ref = got
			} else if got != ref {
				fmt.Printf("determinism: %s: GOMAXPROCS=%s differs from GOMAXPROCS=1\n", p, g)
				bad++
			}
		}
		if ref != "" {
			fmt.Printf("determinism: %s: %d runs x 3 processes (GOMAXPROCS 1/4/16) identical=%v\n", p, runs, bad == 0)
		}
	}
	if bad > 0 {
		return 1
	}
	return 0
}
