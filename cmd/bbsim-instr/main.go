// Command bbsim-instr builds the instrumented scratch module (development aid; the driver links
// the instr package directly).
package main

import (
	"flag"
	"fmt"
	"os"
	"runtime"

	"bbsim/instr"
)

func main() {
	repo := flag.String("repo", "/repo", "library source directory")
	out := flag.String("out", "", "output directory")
	harness := flag.String("harness", "/verif/harness", "harness directory ('' = none)")
	tests := flag.Bool("tests", false, "instrument the library's tests too (passthrough validation)")
	flag.Parse()
	if *out == "" {
		fmt.Fprintln(os.Stderr, "bbsim-instr: -out <directory> is required (the output is written there, over whatever it holds)")
		os.Exit(2)
	}
	st, err := instr.BuildScratch(instr.Scratch{RepoDir: *repo, VerifDir: "/verif", GoRoot: runtime.GOROOT(), OutDir: *out,
		WithTests: *tests, HarnessDir: *harness, ModCache: "/root/go/pkg/mod"})
	if err != nil {
		fmt.Fprintln(os.Stderr, "bbsim-instr:", err)
		os.Exit(2)
	}
	fmt.Println(st)
}
