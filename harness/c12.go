package harness

import (
	"context"
	"fmt"
	"strings"
	"time"

	"bbsim/simrt"

	bigbuff "github.com/joeycumines/go-bigbuff"
)

// C12: random programs over the whole public API, then a shutdown phase that closes every handle and
// cancels every context in a drawn order, partly while calls are in flight. Oracle: every Close
// returns; Done is closed afterwards; later calls fail cleanly; a second Close fails; Buffer.Close
// closed its consumers and kept its content; and, once everything is shut down and all timers are
// drained, no task started by library code is left.

func init() {
	Register(Harness{Prop: "C12", Name: "C12/shutdown", Run: func() { c12Main(0) }, Weight: 3})
	Register(Harness{Prop: "C12", Name: "C12/buffer", Run: func() { c12Main(1) }, Weight: 2})
	Register(Harness{Prop: "C12", Name: "C12/small", Run: func() { c12Main(2) }, Weight: 1})
}

const c12Unit = 50 * time.Microsecond

type c12Comp interface {
	start(r *c12Run)
	// verify runs at the quiescent instant after the shutdown phase
	verify(r *c12Run) bool
}

type c12Action struct {
	name string
	fn   func()
}

type c12CloseCall struct {
	inv, ret int64
	err      error
	returned bool
}

// c12Handle is one closable handle (Buffer, Buffer consumer, Channel).
type c12Handle struct {
	name        string
	closeFn     func() error
	doneFn      func() <-chan struct{}
	post        func(h *c12Handle) bool // the "later calls" of the statement; false after a Failf
	calls       []*c12CloseCall
	closedStamp int64 // a Close call had returned / Done had been seen closed by this stamp
	nilCloses   int
	postStage   string // "" not started, "done" finished, otherwise the call in progress
	inFlight    func() string
}

type c12Run struct {
	comps   []c12Comp
	actions []c12Action
	cleanup []func() // cancels of contexts no drawn action covers: run by the main task right after the drawn shutdown actions
	finals  []func() // cancels deliberately kept back until after the first leak check (see c12Cond, c12Ctx)
	handles []*c12Handle
	seq     int
}

func (r *c12Run) addAction(name string, fn func()) {
	r.actions = append(r.actions, c12Action{name, fn})
}

func (r *c12Run) newHandle(name string, closeFn func() error, doneFn func() <-chan struct{}, post func(h *c12Handle) bool) *c12Handle {
	h := &c12Handle{name: name, closeFn: closeFn, doneFn: doneFn, post: post}
	r.handles = append(r.handles, h)
	return h
}

func (h *c12Handle) doneClosed() bool {
	select {
	case <-h.doneFn():
		return true
	default:
		return false
	}
}

// runPost performs the later calls once per handle.
func (h *c12Handle) runPost() {
	if h.postStage != "" {
		return
	}
	h.postStage = "start"
	if h.post(h) {
		h.postStage = "done"
	}
}

// explicitClose calls Close in a task of its own (a Close may legitimately wait for its user to
// resolve reads or for a blocked Get to be cancelled, which later actions do).
func (h *c12Handle) explicitClose() {
	cc := &c12CloseCall{}
	h.calls = append(h.calls, cc)
	if len(h.calls) > 1 {
		simrt.Probe("second_close")
	}
	if h.inFlight != nil {
		if p := h.inFlight(); p != "" {
			simrt.Probe(p)
		}
	}
	go func() {
		cc.inv = simrt.Stamp()
		closedBefore := h.closedStamp != 0
		simrt.Fault("close_handle")
		cc.err = h.closeFn()
		cc.ret = simrt.Stamp()
		cc.returned = true
		if cc.err == nil {
			h.nilCloses++
			if h.nilCloses > 1 {
				simrt.Failf("C12.second-close-no-error", "%s: two Close calls returned nil", h.name)
				return
			}
			if closedBefore {
				simrt.Failf("C12.second-close-no-error", "%s: Close returned nil although the handle was already closed when it was invoked", h.name)
				return
			}
		}
		if h.closedStamp == 0 {
			h.closedStamp = cc.ret
		}
		if !h.doneClosed() {
			simrt.Failf("C12.done-not-closed", "%s: Close returned (%v) but the Done channel is not closed", h.name, cc.err)
			return
		}
		h.runPost()
	}()
}

// c12MustErr reports a later call that did not fail.
func c12MustErr(h *c12Handle, call string, err error) bool {
	if err == nil {
		simrt.Failf("C12.later-call-no-error", "%s: %s after Close returned nil instead of an error", h.name, call)
		return false
	}
	return true
}

func c12LibLeft() string {
	out := ""
	for _, t := range simrt.Tasks() {
		if t.Lib && t.State != simrt.Done {
			out += fmt.Sprintf(" [%s: %s on %s]", t.Name, t.State, t.On)
		}
	}
	return out
}

func c12Main(flavour int) {
	r := &c12Run{}
	// ---- draw the program
	switch flavour {
	case 1:
		r.comps = append(r.comps, newC12Buf(r, simrt.DrawRange(1, 3)))
		if simrt.Chance(1, 3) {
			r.comps = append(r.comps, newC12Chan(r))
		}
	case 2:
		switch simrt.Draw(4) {
		case 0:
			r.comps = append(r.comps, newC12Cond(r))
		case 1:
			r.comps = append(r.comps, newC12Ctx(r))
		case 2:
			r.comps = append(r.comps, newC12Chan(r))
		default:
			r.comps = append(r.comps, newC12Buf(r, simrt.DrawRange(0, 1)))
		}
	default:
		want := simrt.DrawRange(1, 4)
		for len(r.comps) < want {
			switch simrt.Draw(11) {
			case 0, 1:
				r.comps = append(r.comps, newC12Buf(r, simrt.DrawRange(0, 2)))
			case 2:
				r.comps = append(r.comps, newC12Chan(r))
			case 3:
				r.comps = append(r.comps, newC12Cond(r))
			case 4:
				r.comps = append(r.comps, newC12Ctx(r))
			case 5:
				r.comps = append(r.comps, newC12Notif(r))
			case 6:
				r.comps = append(r.comps, newC12Excl(r))
			case 7:
				r.comps = append(r.comps, newC12Workers(r))
			case 8:
				r.comps = append(r.comps, newC12Worker(r))
			case 9:
				r.comps = append(r.comps, newC12Attempt(r))
			default:
				r.comps = append(r.comps, newC12Cond(r))
			}
		}
	}
	// shutdown plan: a drawn order, split over two closer tasks, each action behind a drawn pause
	n := len(r.actions)
	order := make([]int, n)
	for i := range order {
		order[i] = i
	}
	for i := n - 1; i > 0; i-- {
		j := simrt.Draw(i + 1)
		order[i], order[j] = order[j], order[i]
	}
	type step struct {
		a c12Action
		p pause
	}
	var closers [2][]step
	for _, k := range order {
		w := simrt.Draw(2)
		closers[w] = append(closers[w], step{r.actions[k], drawPause()})
	}
	startPause := [2]pause{drawPause(), drawPause()}
	if simrt.Chance(1, 3) {
		startPause[0] = pause{1, simrt.DrawRange(5, 40)} // let the workload run dry first
		startPause[1] = startPause[0]
	}

	// ---- workload
	for _, c := range r.comps {
		c.start(r)
		if simrt.Failed() {
			return
		}
	}
	// ---- shutdown phase
	closersDone := 0
	for w := 0; w < 2; w++ {
		w := w
		go func() {
			defer func() { closersDone++ }()
			startPause[w].do(c12Unit)
			for _, s := range closers[w] {
				s.p.do(c12Unit)
				s.a.fn()
			}
		}()
	}
	d := 20 * time.Microsecond
	for closersDone < 2 {
		simrt.Quiesce(d) // bounded: pollers and attempt tickers are periodic until they are shut down
		if simrt.Failed() {
			return
		}
		if d < 4*time.Millisecond {
			d *= 2
		}
	}
	for _, f := range r.cleanup {
		f()
	}
	// every handle's Close has been invoked or its context cancelled, every context the program
	// passed in (bar the deliberately immortal ones) is cancelled: no ticker can be alive any more
	// (a polling Channel.Get and a LinearAttempt producer end on the cancellation alone)
	simrt.Quiesce(0)
	if simrt.Failed() {
		return
	}
	// ... and, every call having returned, no goroutine of the library is left NOW: not "once its timer
	// has fired" (the clock has not moved since the last shutdown action)
	allReturned := true
	for _, h := range r.handles {
		for _, cc := range h.calls {
			allReturned = allReturned && cc.returned
		}
		allReturned = allReturned && h.doneClosed()
	}
	left := ""
	for _, t := range simrt.Tasks() {
		// (goroutines of the other components may still be inside a user function that has not finished)
		if t.Lib && t.State != simrt.Done && (strings.HasPrefix(t.Name, "buffer.") || strings.HasPrefix(t.Name, "consumer.") || strings.HasPrefix(t.Name, "channel.")) {
			left += fmt.Sprintf(" [%s: %s on %s]", t.Name, t.State, t.On)
		}
	}
	if allReturned && left != "" {
		simrt.Failf("C12.goroutine-left-until-timer", "everything is shut down, every Close has returned, every Done is closed, nothing can run without the clock moving, and goroutines started by the library are still there (waiting for a timer):%s", left)
		return
	}
	t1 := c20TickerReqs()
	simrt.Quiesce(5 * time.Millisecond)
	if t2 := c20TickerReqs(); t2 > t1 {
		simrt.Failf("C12.poller-alive-after-shutdown", "everything is shut down and was quiescent, yet a ticker was re-armed %d times in the following 5ms (a Channel.Get poll loop or a LinearAttempt producer is still alive):%s", t2-t1, c12LibLeft())
		return
	}
	simrt.Quiesce(-1)
	if simrt.Failed() {
		return
	}
	for _, h := range r.handles {
		for i, cc := range h.calls {
			if !cc.returned {
				simrt.Failf("C12.close-stuck", "%s: Close call %d has not returned at quiescence after the shutdown phase (all reads resolved, all Gets cancelled, all timers drained)", h.name, i)
				return
			}
		}
		if !h.doneClosed() {
			simrt.Failf("C12.done-not-closed", "%s: shut down (Close calls: %d) but its Done channel is still open at quiescence", h.name, len(h.calls))
			return
		}
		if h.closedStamp == 0 {
			h.closedStamp = simrt.Stamp()
			simrt.Probe("closed_implicitly")
		}
	}
	for _, c := range r.comps {
		if !c.verify(r) {
			return
		}
	}
	// later calls on the handles that were only closed implicitly, and whatever is still running
	for _, h := range r.handles {
		h := h
		if h.postStage == "" {
			go h.runPost()
		}
	}
	simrt.Quiesce(-1)
	if simrt.Failed() {
		return
	}
	for _, h := range r.handles {
		if h.postStage != "done" {
			simrt.Failf("C12.later-call-blocked", "%s: a call made after Close had returned is blocked at quiescence (stage %q)", h.name, h.postStage)
			return
		}
	}
	if left := c12LibLeft(); left != "" {
		simrt.Failf("C12.goroutine-left", "everything is shut down, all calls have returned, all timers are drained, and goroutines started by the library are still there:%s", left)
		return
	}
	simrt.Probe("leak_check_passed")
	for _, f := range r.finals {
		f()
	}
	simrt.Quiesce(-1)
	if left := c12LibLeft(); left != "" {
		simrt.Failf("C12.goroutine-left", "after the final cancels, goroutines started by the library are still there:%s", left)
	}
}

// ------------------------------------------------------------------------------------------------
// Buffer + consumers

type c12Cons struct {
	i        int
	c        bigbuff.Consumer
	h        *c12Handle
	gctx     context.Context
	gcancel  context.CancelFunc
	reads    int
	every    int
	commit   []bool
	pauses   []pause
	explicit bool
	inGet    bool
	userDone bool
	commits  int // values committed
}

type c12Buf struct {
	id               int
	b                *bigbuff.Buffer
	h                *c12Handle
	cool             time.Duration
	batches          []int
	ppause           []pause
	pctx             context.Context
	pcancel          context.CancelFunc
	put              []int
	inPut            bool
	prodEnd          bool
	cons             []*c12Cons
	atClose          []interface{}
	sliced           bool
	fixed            bool // FixedBufferCleaner(max, target) instead of the default cleaner
	max              int
	target           int
	reconfAfterClose bool     // a flush-everything cleaner is installed after Close has returned
	late             *c12Late // a NewConsumer call made while the shutdown may be under way
	differ           int      // index of the consumer a separate goroutine calls Diff on (-1 none)
	dpause           pause
	dBusy            bool
}

// c12Late is a consumer requested late: the NewConsumer call may race Buffer.Close. It either fails
// cleanly or yields a consumer that the buffer's close closes like any other.
type c12Late struct {
	pre      pause
	stall    int
	c        bigbuff.Consumer
	err      error
	returned bool
	started  bool
}

func (x *c12Buf) lateStarted() bool { return x.late != nil && x.late.started }

func newC12Buf(r *c12Run, nCons int) *c12Buf {
	r.seq++
	x := &c12Buf{id: r.seq, cool: drawCooldown(), differ: -1, reconfAfterClose: simrt.Chance(1, 3)}
	if simrt.Chance(1, 3) {
		x.fixed = true
		x.max = simrt.DrawRange(1, 4)
		x.target = simrt.DrawRange(0, x.max)
	}
	if nCons > 0 && simrt.Chance(1, 2) {
		x.differ = simrt.Draw(nCons)
		x.dpause = drawPause()
	}
	for k := simrt.DrawRange(0, 3); k > 0; k-- {
		x.batches = append(x.batches, simrt.DrawRange(1, 3))
		x.ppause = append(x.ppause, drawPause())
	}
	total := 0
	for _, n := range x.batches {
		total += n
	}
	if simrt.Chance(1, 3) {
		x.pctx, x.pcancel = context.WithCancel(context.Background())
		r.addAction("cancel put ctx", func() { simrt.Fault("ctx_cancel"); x.pcancel() })
	}
	for i := 0; i < nCons; i++ {
		k := &c12Cons{i: i, reads: simrt.DrawRange(0, total+1), every: simrt.DrawRange(1, 3), explicit: simrt.Chance(1, 2)}
		for j := 0; j <= k.reads; j++ {
			k.pauses = append(k.pauses, drawPause())
			k.commit = append(k.commit, simrt.Chance(2, 3))
		}
		k.gctx, k.gcancel = context.WithCancel(context.Background())
		x.cons = append(x.cons, k)
		// the precondition of the statement: a blocked Get is cancelled by its user
		r.addAction("cancel get ctx", func() {
			simrt.Fault("ctx_cancel")
			if k.inGet {
				simrt.Probe("cancel_while_get_in_flight")
			}
			k.gcancel()
		})
		if k.explicit {
			r.addAction("consumer close", func() { k.h.explicitClose() })
			if simrt.Chance(1, 4) {
				r.addAction("consumer close again", func() { k.h.explicitClose() })
			}
		}
	}
	if simrt.Chance(1, 3) {
		x.late = &c12Late{pre: drawPause(), stall: simrt.DrawRange(0, 40)}
		r.addAction("late NewConsumer", func() {
			go func() {
				x.late.pre.do(c12Unit)
				simrt.Stall(x.late.stall)
				x.late.started = true
				simrt.Probe("new_consumer_during_shutdown")
				x.late.c, x.late.err = x.b.NewConsumer()
				x.late.returned = true
			}()
		})
	}
	r.addAction("buffer close", func() { x.h.explicitClose() })
	if simrt.Chance(1, 4) {
		r.addAction("buffer close again", func() { x.h.explicitClose() })
	}
	return x
}

func (x *c12Buf) start(r *c12Run) {
	var cleaner bigbuff.Cleaner
	if x.fixed {
		cleaner = bigbuff.FixedBufferCleaner(x.max, x.target, func(bigbuff.FixedBufferCleanerNotification) { simrt.Fault("forced_trim") })
	}
	x.b = newBuffer(cleaner, x.cool)
	name := fmt.Sprintf("buffer %d", x.id)
	x.h = r.newHandle(name, x.b.Close, x.b.Done, func(h *c12Handle) bool {
		h.postStage = "Slice"
		snap := x.b.Slice()
		x.atClose = append([]interface{}(nil), snap...)
		for i := range snap {
			snap[i] = "overwritten by the caller" // a snapshot is the caller's own copy: writing to it changes nothing else
		}
		x.sliced = true
		// closing a Buffer closes all of its consumers: a consumer Close invoked from now on is a second one
		for _, k := range x.cons {
			if k.h.closedStamp == 0 {
				k.h.closedStamp = simrt.Stamp()
			}
			if k.c != nil && !k.h.doneClosed() {
				simrt.Failf("C12.consumer-open-after-buffer-close", "%s: Buffer.Close has returned, yet the Done channel of its %s is still open", h.name, k.h.name)
				return false
			}
		}
		if x.late != nil && x.late.c != nil {
			select {
			case <-x.late.c.Done():
			default:
				simrt.Failf("C12.consumer-open-after-buffer-close", "%s: Buffer.Close has returned, yet the Done channel of the consumer created during the shutdown is still open", h.name)
				return false
			}
		}
		h.postStage = "Put"
		if !c12MustErr(h, "Put", x.b.Put(context.Background(), -1)) {
			return false
		}
		h.postStage = "NewConsumer"
		c, err := x.b.NewConsumer()
		if err == nil || c != nil {
			simrt.Failf("C12.later-call-no-error", "%s: NewConsumer after Close returned (%v, %v)", h.name, c, err)
			return false
		}
		h.postStage = "Close"
		simrt.Probe("second_close")
		if !c12MustErr(h, "a second Close", x.b.Close()) {
			return false
		}
		if x.reconfAfterClose {
			// reconfiguring a closed buffer (whatever the call answers) does not touch what it holds
			h.postStage = "SetCleanerConfig"
			simrt.Probe("cleaner_reconfigured_after_close")
			_ = x.b.SetCleanerConfig(bigbuff.CleanerConfig{Cleaner: func(size int, _ []int) int { return size }, Cooldown: 0})
		}
		return true
	})
	x.h.inFlight = func() string {
		for _, k := range x.cons {
			if k.inGet {
				return "close_while_get_in_flight"
			}
		}
		if x.inPut {
			return "close_while_put_in_flight"
		}
		return ""
	}
	for _, k := range x.cons {
		k := k
		c, err := x.b.NewConsumer()
		if err != nil {
			simrt.Failf("setup", "NewConsumer: %v", err)
			return
		}
		k.c = c
		k.h = r.newHandle(fmt.Sprintf("%s consumer %d", name, k.i), c.Close, c.Done, func(h *c12Handle) bool {
			h.postStage = "Get"
			if _, err := c.Get(context.Background()); !c12MustErr(h, "Get", err) {
				return false
			}
			h.postStage = "Commit"
			if !c12MustErr(h, "Commit", c.Commit()) {
				return false
			}
			h.postStage = "Close"
			simrt.Probe("second_close")
			return c12MustErr(h, "a second Close", c.Close())
		})
		k.h.inFlight = func() string {
			if k.inGet {
				return "close_while_get_in_flight"
			}
			return ""
		}
		go func() { // the consumer's user: resolves every read it makes
			defer func() { k.userDone = true }()
			pending := 0
			resolve := func(commit bool) {
				if pending == 0 {
					return
				}
				if commit {
					err := c.Commit()
					if err == nil {
						k.commits += pending
						pending = 0
						return
					}
					// Closing (of the consumer or of its Buffer) waits for exactly these reads to be
					// resolved and completes only afterwards, so this Commit is not one of the "later"
					// calls that fail: a user that commits what it reads (and returns on an error, as
					// users do) must be able to let the close terminate.
					simrt.Failf("C12.commit-refused", "%s: Commit of %d outstanding read(s) failed with %v; a close in progress waits for these reads to be committed and cannot have completed", k.h.name, pending, err)
					return
				}
				_ = c.Rollback()
				pending = 0
			}
			for i := 0; i < k.reads; i++ {
				k.pauses[i].do(c12Unit)
				k.inGet = true
				_, err := c.Get(k.gctx)
				k.inGet = false
				if err != nil {
					break
				}
				pending++
				if pending >= k.every {
					resolve(k.commit[i])
				}
			}
			resolve(k.commit[k.reads])
		}()
	}
	if x.differ >= 0 {
		// another goroutine inspects a consumer (Diff / Buffer.Range) while it is being used and closed;
		// it may have to wait for a blocked Get of that consumer, never longer
		k := x.cons[x.differ]
		go func() {
			x.dpause.do(c12Unit)
			x.dBusy = true
			simrt.Probe("diff_concurrent_with_close_paths")
			x.b.Diff(k.c) // (Buffer.Range would commit on the user's behalf; Diff takes the same locks)
			x.dBusy = false
		}()
	}
	go func() { // the producer
		defer func() { x.prodEnd = true }()
		next := 0
		for i, n := range x.batches {
			x.ppause[i].do(c12Unit)
			vals := make([]interface{}, n)
			for j := range vals {
				vals[j] = next + j
			}
			x.inPut = true
			err := x.b.Put(x.pctx, vals...)
			x.inPut = false
			if err != nil {
				return
			}
			for j := 0; j < n; j++ {
				x.put = append(x.put, next+j)
			}
			next += n
		}
	}()
}

func (x *c12Buf) verify(r *c12Run) bool {
	if !x.prodEnd {
		simrt.Failf("C12.call-stuck", "buffer %d: a Put has not returned at quiescence after the shutdown phase", x.id)
		return false
	}
	for _, k := range x.cons {
		if !k.userDone {
			simrt.Failf("C12.call-stuck", "buffer %d consumer %d: a Get/Commit/Rollback has not returned at quiescence after the shutdown phase", x.id, k.i)
			return false
		}
	}
	if x.late != nil && x.late.stall >= 0 && x.lateStarted() {
		if !x.late.returned {
			simrt.Failf("C12.call-stuck", "buffer %d: a NewConsumer call made during the shutdown has not returned at quiescence", x.id)
			return false
		}
		if x.late.err == nil {
			select {
			case <-x.late.c.Done():
			default:
				simrt.Failf("C12.done-not-closed", "buffer %d: the consumer that NewConsumer returned during the shutdown is still open after the buffer was closed", x.id)
				return false
			}
		}
	}
	if x.dBusy {
		simrt.Failf("C12.call-stuck", "buffer %d: a Diff / Buffer.Range on consumer %d has not returned at quiescence after the shutdown phase", x.id, x.differ)
		return false
	}
	if !x.sliced {
		simrt.Failf("C12.close-stuck", "buffer %d: the later calls after Close were never reached", x.id)
		return false
	}
	// contents stay readable: what Slice returned right after Close, and what it returns now, is the
	// tail of what was put, and nothing a consumer had not committed was dropped
	maxCommitted := 0
	for _, k := range x.cons {
		if k.commits > maxCommitted {
			maxCommitted = k.commits
		}
	}
	// a consumer that was never closed by its user was open from before the first Put until the Buffer
	// closed it: under the default cleaner nothing it had not committed can have been removed, neither
	// before nor during the close ("leaves its contents readable")
	heldBack := false
	for _, k := range x.cons {
		if len(k.h.calls) == 0 && (!heldBack || k.commits < maxCommitted) {
			heldBack = true
			maxCommitted = k.commits
		}
	}
	if heldBack {
		simrt.Probe("contents_bounded_by_a_consumer_open_until_the_buffer_closed")
	}
	final := x.b.Slice()
	if len(final) != len(x.atClose) {
		simrt.Failf("C12.slice-after-close", "buffer %d: Slice() returned %d values right after Close and %d at the end: the contents of a closed buffer changed", x.id, len(x.atClose), len(final))
		return false
	}
	for pass, s := range [][]interface{}{x.atClose, final} {
		if len(s) > len(x.put) || (!x.fixed && len(s) < len(x.put)-maxCommitted) {
			simrt.Failf("C12.slice-after-close", "buffer %d: Slice() after Close (pass %d) has %d values; %d were put and at most %d were committed by every consumer that was open until the buffer closed (or by any consumer, if none was)", x.id, pass, len(s), len(x.put), maxCommitted)
			return false
		}
		off := len(x.put) - len(s)
		for i, v := range s {
			if v != interface{}(x.put[off+i]) {
				simrt.Failf("C12.slice-after-close", "buffer %d: Slice() after Close (pass %d) is %v, not the tail of the values put %v", x.id, pass, s, x.put)
				return false
			}
		}
	}
	return true
}

// ------------------------------------------------------------------------------------------------
// Channel

type c12Chan struct {
	id         int
	src        chan int
	nVals      int
	closeSrc   bool
	fpause     []pause
	rate       time.Duration
	parent     context.Context
	pcancel    context.CancelFunc
	ch         *bigbuff.Channel
	h          *c12Handle
	gctx       context.Context
	gcancel    context.CancelFunc
	reads      int
	every      int
	commit     []bool
	pauses     []pause
	inGet      bool
	userDone   bool
	feedDone   bool
	stopFeed   chan struct{}
	byCtx      bool
	byClose    bool
	cancelGet  bool
	withParent bool
	leaveReads bool // the user leaves its last reads unresolved (a Channel's Close does not wait for them)
}

func newC12Chan(r *c12Run) *c12Chan {
	r.seq++
	x := &c12Chan{id: r.seq, nVals: simrt.DrawRange(0, 4), closeSrc: simrt.Chance(1, 4),
		rate: []time.Duration{200 * time.Microsecond, time.Millisecond}[simrt.Draw(2)], every: simrt.DrawRange(1, 3)}
	for i := 0; i < x.nVals; i++ {
		x.fpause = append(x.fpause, drawPause())
	}
	x.reads = simrt.DrawRange(0, x.nVals+2)
	for j := 0; j <= x.reads; j++ {
		x.pauses = append(x.pauses, drawPause())
		x.commit = append(x.commit, simrt.Chance(2, 3))
	}
	switch simrt.Draw(3) {
	case 0:
		x.byClose = true
	case 1:
		x.byCtx = true
	default:
		x.byClose, x.byCtx = true, true
	}
	x.cancelGet = simrt.Chance(1, 2)
	x.withParent = x.byCtx || simrt.Chance(1, 2)
	x.leaveReads = simrt.Chance(1, 3)
	if x.byCtx {
		r.addAction("cancel channel parent ctx", func() { simrt.Fault("ctx_cancel"); x.pcancel() })
	} else {
		r.cleanup = append(r.cleanup, func() {
			if x.pcancel != nil {
				x.pcancel()
			}
		})
	}
	if x.byClose {
		r.addAction("channel close", func() { x.h.explicitClose() })
		if simrt.Chance(1, 4) {
			r.addAction("channel close again", func() { x.h.explicitClose() })
		}
	}
	if x.cancelGet {
		r.addAction("cancel channel get ctx", func() {
			simrt.Fault("ctx_cancel")
			if x.inGet {
				simrt.Probe("cancel_while_get_in_flight")
			}
			x.gcancel()
		})
	} else {
		r.cleanup = append(r.cleanup, func() { x.gcancel() })
	}
	r.addAction("stop feeder", func() { close(x.stopFeed) })
	return x
}

func (x *c12Chan) start(r *c12Run) {
	x.src = make(chan int, 2)
	x.stopFeed = make(chan struct{})
	if x.withParent {
		x.parent, x.pcancel = context.WithCancel(context.Background())
		if simrt.Chance(1, 6) {
			// built on a context that is already cancelled: closed from the start, every call fails cleanly
			simrt.Probe("channel_built_on_a_cancelled_context")
			simrt.Fault("ctx_cancel")
			x.pcancel()
		}
	}
	x.gctx, x.gcancel = context.WithCancel(context.Background())
	ch, err := bigbuff.NewChannel(x.parent, x.rate, x.src)
	if err != nil {
		simrt.Failf("setup", "NewChannel: %v", err)
		return
	}
	x.ch = ch
	x.h = r.newHandle(fmt.Sprintf("channel %d", x.id), ch.Close, ch.Done, func(h *c12Handle) bool {
		h.postStage = "Get"
		if _, err := ch.Get(context.Background()); !c12MustErr(h, "Get", err) {
			return false
		}
		h.postStage = "Commit"
		if !c12MustErr(h, "Commit", ch.Commit()) {
			return false
		}
		h.postStage = "Close"
		simrt.Probe("second_close")
		return c12MustErr(h, "a second Close", ch.Close())
	})
	x.h.inFlight = func() string {
		if x.inGet {
			return "close_while_get_in_flight"
		}
		return ""
	}
	go func() { // feeder
		defer func() { x.feedDone = true }()
		for i := 0; i < x.nVals; i++ {
			x.fpause[i].do(c12Unit)
			select {
			case x.src <- i + 1:
			case <-x.stopFeed:
				return
			}
		}
		if x.closeSrc {
			simrt.Fault("source_close")
			close(x.src)
		}
	}()
	go func() { // user
		defer func() { x.userDone = true }()
		pending := 0
		resolve := func(commit bool) {
			if pending == 0 {
				return
			}
			if commit {
				_ = ch.Commit()
			} else {
				_ = ch.Rollback()
			}
			pending = 0
		}
		for i := 0; i < x.reads; i++ {
			x.pauses[i].do(c12Unit)
			x.inGet = true
			_, err := ch.Get(x.gctx)
			x.inGet = false
			if err != nil {
				break
			}
			pending++
			if pending >= x.every {
				resolve(x.commit[i])
			}
		}
		if x.leaveReads && pending > 0 {
			simrt.Probe("channel_reads_left_unresolved")
			return
		}
		resolve(x.commit[x.reads])
	}()
}

func (x *c12Chan) verify(r *c12Run) bool {
	if !x.userDone {
		simrt.Failf("C12.call-stuck", "channel %d: a Get has not returned at quiescence although the Channel is closed", x.id)
		return false
	}
	if !x.feedDone {
		simrt.Failf("setup", "channel %d: feeder still running", x.id)
		return false
	}
	return true
}
