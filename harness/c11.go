package harness

import (
	"context"
	"sync"
	"time"

	"bbsim/simrt"

	bigbuff "github.com/joeycumines/go-bigbuff"
)

// C11: the same kinds of workloads as the other properties, built with the race detector. The
// simulator hides its own hand-offs from the detector, so the detector judges only the program's
// own synchronisation, on schedules the simulator chooses. These workloads keep NO shared harness
// bookkeeping: tasks only use locals, the library objects under test and payloads. Payloads are
// written by c11Write before hand-over and read by c11Read after receipt: a report between those two
// functions means the library did not publish the value with a happens-before edge.

func init() {
	Register(Harness{Prop: "C11", Name: "C11/buffer", Run: c11Buffer, Weight: 3})
	Register(Harness{Prop: "C11", Name: "C11/channel", Run: c11Channel, Weight: 2})
	Register(Harness{Prop: "C11", Name: "C11/pubsub", Run: c11PubSub, Weight: 2})
	Register(Harness{Prop: "C11", Name: "C11/caster", Run: c11Caster, Weight: 1})
	Register(Harness{Prop: "C11", Name: "C11/exclusive", Run: c11Exclusive, Weight: 2})
	Register(Harness{Prop: "C11", Name: "C11/workers", Run: c11Workers, Weight: 2})
	Register(Harness{Prop: "C11", Name: "C11/worker", Run: c11Worker, Weight: 1})
	Register(Harness{Prop: "C11", Name: "C11/notifier", Run: c11Notifier, Weight: 2})
	Register(Harness{Prop: "C11", Name: "C11/context", Run: c11Context, Weight: 2})
}

type Payload struct{ X int }

//go:noinline
func c11Write(p *Payload, x int) { p.X = x }

//go:noinline
func c11Read(p *Payload) int { return p.X }

func c11ReadAny(v interface{}) {
	if p, ok := v.(*Payload); ok && p != nil {
		c11Read(p)
	}
}

//go:noinline
func c11ReadInts(s []int) (sum int) {
	for _, x := range s {
		sum += x
	}
	return sum
}

func c11Buffer() {
	cool := drawCooldown()
	var cleaner bigbuff.Cleaner = bigbuff.DefaultCleaner
	// the offsets slice handed to a user's cleaner / notification callback is the user's to keep: it is
	// kept here (under a lock, which publishes it) and read by another task while later cleanup cycles run
	var keptMu sync.Mutex
	var kept [][]int
	keep := func(offsets []int) {
		keptMu.Lock()
		kept = append(kept, offsets)
		keptMu.Unlock()
	}
	keeps := false
	switch simrt.Draw(6) {
	case 0:
		cleaner = bigbuff.FixedBufferCleaner(simrt.DrawRange(2, 5), 1, nil)
	case 1:
		keeps = true
		cleaner = bigbuff.FixedBufferCleaner(simrt.DrawRange(2, 5), 1, func(n bigbuff.FixedBufferCleanerNotification) { keep(n.Offsets) })
	case 2:
		keeps = true
		cleaner = func(size int, offsets []int) int {
			keep(offsets)
			return bigbuff.DefaultCleaner(size, offsets)
		}
	}
	b := newBuffer(cleaner, cool)
	nProd, nCons := simrt.DrawRange(1, 3), simrt.DrawRange(1, 3)
	batches := make([][]int, nProd)
	for i := range batches {
		for k := simrt.DrawRange(1, 3); k > 0; k-- {
			batches[i] = append(batches[i], simrt.DrawRange(1, 3))
		}
	}
	if simrt.Chance(1, 15) {
		batches[0][0] = []int{1030, 1300, 4200}[simrt.Draw(3)] // around thresholds a refactoring might introduce
		simrt.Probe("huge_batch")
	}
	type cplan struct {
		ops      []int
		shared   bool
		closeEnd bool
	}
	cplans := make([]cplan, nCons)
	for i := range cplans {
		for k := simrt.DrawRange(1, 8); k > 0; k-- {
			cplans[i].ops = append(cplans[i].ops, simrt.Draw(8))
		}
		cplans[i].shared = simrt.Chance(1, 3)
		cplans[i].closeEnd = simrt.Chance(1, 2)
	}
	observe := simrt.DrawRange(0, 4)
	setCfg := simrt.Chance(1, 3)
	stop, cancel := context.WithCancel(bg)
	defer cancel()
	for i := range batches {
		bs := batches[i]
		go func() {
			for _, n := range bs {
				vals := make([]interface{}, n)
				for j := range vals {
					p := &Payload{}
					c11Write(p, j+1)
					vals[j] = p
				}
				if b.Put(stop, vals...) != nil {
					return
				}
			}
		}()
	}
	for i := range cplans {
		pl := cplans[i]
		go func() {
			c, err := b.NewConsumer()
			if err != nil {
				return
			}
			run := func(ops []int) {
				for _, op := range ops {
					switch op {
					case 0, 1, 2, 3:
						v, err := c.Get(stop)
						if err != nil {
							_ = c.Rollback()
							return
						}
						c11ReadAny(v)
					case 4, 5:
						_ = c.Commit()
					case 6:
						_ = c.Rollback()
					case 7:
						b.Diff(c)
						select {
						case <-c.Done():
						default:
						}
					}
				}
				_ = c.Rollback()
			}
			if pl.shared {
				var wg sync.WaitGroup
				half := len(pl.ops) / 2
				wg.Add(2)
				go func() { defer wg.Done(); run(pl.ops[:half]) }()
				go func() { defer wg.Done(); run(pl.ops[half:]) }()
				wg.Wait()
			} else {
				// case 7 blocks on Done only at the very end
				ops := pl.ops
				for i, op := range ops {
					if op == 7 {
						ops[i] = 4
					}
				}
				run(ops)
			}
			_ = c.Rollback()
			if pl.closeEnd {
				_ = c.Close()
			}
		}()
	}
	if keeps {
		go func() {
			for i := 0; i < 4; i++ {
				keptMu.Lock()
				mine := append([][]int(nil), kept...)
				keptMu.Unlock()
				for _, o := range mine {
					c11ReadInts(o)
				}
				if len(mine) > 1 {
					simrt.Probe("retained_cleaner_offsets_read_after_later_cycle")
				}
				<-time.After(time.Microsecond)
			}
		}()
	}
	go func() {
		for i := 0; i < observe; i++ {
			for _, v := range b.Slice() {
				c11ReadAny(v)
			}
			b.Size()
			b.CleanerConfig()
			<-time.After(time.Microsecond)
		}
		if setCfg {
			_ = b.SetCleanerConfig(bigbuff.CleanerConfig{Cleaner: bigbuff.DefaultCleaner, Cooldown: cool})
		}
		select {
		case <-b.Done():
		default:
		}
	}()
	if setCfg {
		// two more tasks reconfigure the buffer at about the same time (different pairs), while the
		// observer above reads the configuration
		for k := 0; k < 2; k++ {
			k := k
			go func() {
				<-time.After(time.Duration(k) * time.Microsecond)
				_ = b.SetCleanerConfig(bigbuff.CleanerConfig{Cleaner: bigbuff.DefaultCleaner, Cooldown: cool + time.Duration(k)})
				b.CleanerConfig()
			}()
		}
		simrt.Probe("concurrent_reconfiguration")
	}
	simrt.Quiesce(-1)
	cancel()
	simrt.Quiesce(-1)
	_ = b.Close()
	simrt.Quiesce(-1)
	simrt.Probe("c11_buffer")
}

func c11Channel() {
	n := simrt.DrawRange(0, 6)
	capn := simrt.Draw(3)
	closeSrc := simrt.Chance(1, 3)
	nCli := simrt.DrawRange(1, 3)
	progs := make([][]int, nCli)
	for i := range progs {
		for k := simrt.DrawRange(1, 7); k > 0; k-- {
			progs[i] = append(progs[i], simrt.Draw(8))
		}
	}
	cancelParent := simrt.Chance(1, 3)
	src := make(chan *Payload, capn)
	parent, pcancel := context.WithCancel(bg)
	defer pcancel()
	ch, err := bigbuff.NewChannel(parent, time.Duration(simrt.DrawRange(1, 3))*time.Microsecond, src)
	if err != nil {
		simrt.Failf("setup", "%v", err)
		return
	}
	stop, cancel := context.WithCancel(bg)
	defer cancel()
	go func() {
		for i := 0; i < n; i++ {
			p := &Payload{}
			c11Write(p, i+1)
			select {
			case src <- p:
			case <-stop.Done():
				return
			}
		}
		if closeSrc {
			close(src)
		}
	}()
	for i := range progs {
		prog := progs[i]
		go func() {
			for _, op := range prog {
				switch op {
				case 0, 1, 2:
					ctx, c := context.WithTimeout(stop, 20*time.Microsecond)
					v, err := ch.Get(ctx)
					c()
					if err == nil {
						c11ReadAny(v)
					}
				case 3, 4:
					_ = ch.Commit()
				case 5:
					_ = ch.Rollback()
				case 6:
					for _, v := range ch.Buffer() {
						c11ReadAny(v)
					}
				case 7:
					select {
					case <-ch.Done():
					default:
					}
				}
			}
		}()
	}
	if cancelParent {
		go func() {
			time.Sleep(time.Duration(simrt.DrawRange(1, 30)) * time.Microsecond)
			pcancel()
		}()
	}
	simrt.Quiesce(time.Millisecond)
	cancel()
	simrt.Quiesce(time.Millisecond)
	_ = ch.Close()
	simrt.Quiesce(-1)
	simrt.Probe("c11_channel")
}

func c11PubSub() {
	ps := bigbuff.NewChanPubSub(make(chan *Payload))
	nSend, nSub := simrt.DrawRange(1, 2), simrt.DrawRange(1, 4)
	sends := make([]int, nSend)
	for i := range sends {
		sends[i] = simrt.DrawRange(1, 4)
	}
	kinds := make([]int, nSub)
	takes := make([]int, nSub)
	for i := range kinds {
		kinds[i] = simrt.Draw(3)
		takes[i] = simrt.DrawRange(0, 4)
	}
	stop, cancel := context.WithCancel(bg)
	defer cancel()
	for i := range kinds {
		kind, take := kinds[i], takes[i]
		go func() {
			switch kind {
			case 0: // iterator, leaves by early break or cancellation
				n := 0
				for p := range ps.SubscribeContext(stop) {
					c11Read(p)
					n++
					if n >= take {
						break
					}
				}
			default: // manual subscriber
				ps.Subscribe()
				for n := 0; n < take; n++ {
					select {
					case p := <-ps.C():
						ps.Wait()
						c11Read(p)
					case <-stop.Done():
						ps.Unsubscribe()
						return
					}
				}
				ps.Unsubscribe()
			}
		}()
	}
	for i := range sends {
		k := sends[i]
		go func() {
			for j := 0; j < k; j++ {
				p := &Payload{}
				c11Write(p, j+1)
				ps.Send(p)
				ps.Add(0)
			}
		}()
	}
	simrt.Quiesce(-1)
	cancel()
	simrt.Quiesce(-1)
	simrt.Probe("c11_pubsub")
}

func c11Caster() {
	x := bigbuff.NewChanCaster(make(chan *Payload))
	nRecv := simrt.DrawRange(1, 4)
	giveUp := make([]bool, nRecv)
	for i := range giveUp {
		giveUp[i] = simrt.Chance(1, 3)
	}
	nSend := simrt.DrawRange(1, 3)
	quit := make(chan struct{})
	var wg sync.WaitGroup
	for i := range giveUp {
		g := giveUp[i]
		wg.Add(1)
		go func() {
			defer wg.Done()
			x.Add(1)
			if g {
				select {
				case p := <-x.C:
					c11Read(p)
				default:
					x.Add(-1)
				}
				return
			}
			select {
			case p := <-x.C:
				c11Read(p)
			case <-quit:
				x.Add(-1)
			}
		}()
	}
	go func() {
		for j := 0; j < nSend; j++ {
			p := &Payload{}
			c11Write(p, j+1)
			x.Send(p)
		}
	}()
	simrt.Quiesce(-1)
	close(quit)
	simrt.Quiesce(-1)
	simrt.Probe("c11_caster")
}

func c11Exclusive() {
	var e bigbuff.Exclusive
	nKeys := simrt.DrawRange(1, 2)
	nCall := simrt.DrawRange(2, 6)
	type call struct{ key, style, wait int }
	calls := make([]call, nCall)
	for i := range calls {
		calls[i] = call{simrt.Draw(nKeys), simrt.Draw(7), simrt.DrawRange(0, 3)}
	}
	rl, rlCancel := context.WithCancel(bg)
	defer rlCancel()
	for i := range calls {
		c := calls[i]
		go func() {
			fn := func() (interface{}, error) {
				p := &Payload{}
				c11Write(p, c.key+1)
				time.Sleep(time.Microsecond)
				return p, nil
			}
			wait := time.Duration(c.wait) * time.Microsecond
			switch c.style {
			case 0:
				v, _ := e.Call(c.key, fn)
				c11ReadAny(v)
			case 1:
				v, _ := e.CallAfter(c.key, fn, wait)
				c11ReadAny(v)
			case 2:
				if o := <-e.CallAsync(c.key, fn); o != nil {
					c11ReadAny(o.Result)
				}
			case 3:
				e.Start(c.key, fn)
			case 4:
				e.StartAfter(c.key, fn, wait)
			case 5:
				o := <-e.CallWithOptions(bigbuff.ExclusiveKey(c.key), bigbuff.ExclusiveValue(fn), bigbuff.ExclusiveRateLimit(rl, 2*time.Microsecond))
				if o != nil {
					c11ReadAny(o.Result)
				}
			case 6:
				// hedged work: two goroutines race to resolve, the first answer wins (resolve is documented
				// as callable more than once; only the first call counts)
				o := <-e.CallWithOptions(bigbuff.ExclusiveKey(c.key), bigbuff.ExclusiveWork(func(resolve func(interface{}, error)) {
					var wg sync.WaitGroup
					for h := 0; h < 2; h++ {
						wg.Add(1)
						go func() {
							defer wg.Done()
							resolve(fn())
						}()
					}
					wg.Wait()
				}))
				if o != nil {
					c11ReadAny(o.Result)
				}
			}
		}()
	}
	simrt.Quiesce(-1)
	simrt.Probe("c11_exclusive")
}

func c11Workers() {
	var w bigbuff.Workers
	n := simrt.DrawRange(2, 6)
	counts := make([]int, n)
	for i := range counts {
		counts[i] = simrt.DrawRange(1, 3)
	}
	extra := simrt.DrawRange(0, 3)
	var wg sync.WaitGroup
	for i := range counts {
		c := counts[i]
		wg.Add(1)
		go func() {
			defer wg.Done()
			v, _ := w.Call(c, func() (interface{}, error) {
				p := &Payload{}
				c11Write(p, c)
				time.Sleep(time.Microsecond)
				return p, nil
			})
			c11ReadAny(v)
		}()
	}
	go func() {
		for i := 0; i < extra; i++ {
			w.Count()
			time.Sleep(time.Microsecond)
		}
	}()
	wg.Wait()
	w.Wait()
	w.Count()
	simrt.Quiesce(-1)
	simrt.Probe("c11_workers")
}

func c11Worker() {
	var w bigbuff.Worker
	n := simrt.DrawRange(1, 5)
	holds := make([]int, n)
	for i := range holds {
		holds[i] = simrt.DrawRange(0, 3)
	}
	for i := range holds {
		h := holds[i]
		go func() {
			shared := &Payload{}
			done := w.Do(func(stop <-chan struct{}) {
				<-stop
			})
			c11Write(shared, h)
			time.Sleep(time.Duration(h) * time.Microsecond)
			done()
		}()
	}
	simrt.Quiesce(-1)
	simrt.Probe("c11_worker")
}

func c11Notifier() {
	var n bigbuff.Notifier
	nSub, nPub := simrt.DrawRange(1, 3), simrt.DrawRange(1, 3)
	takes := make([]int, nSub)
	styles := make([]int, nSub)
	for i := range takes {
		takes[i] = simrt.DrawRange(0, 3)
		styles[i] = simrt.Draw(2)
	}
	pubs := make([]int, nPub)
	for i := range pubs {
		pubs[i] = simrt.DrawRange(1, 3)
	}
	stop, cancel := context.WithCancel(bg)
	defer cancel()
	for i := range takes {
		take, style := takes[i], styles[i]
		go func() {
			target := make(chan *Payload)
			ctx, c := context.WithCancel(stop)
			if style == 0 {
				n.SubscribeContext(ctx, "k", target)
			} else {
				cc := n.SubscribeCancel(ctx, "k", target)
				defer cc()
			}
			for j := 0; j < take; j++ {
				select {
				case p := <-target:
					c11Read(p)
				case <-stop.Done():
					j = take
				}
			}
			c()
			if style == 0 {
				n.Unsubscribe("k", target)
			}
		}()
	}
	for i := range pubs {
		k := pubs[i]
		go func() {
			for j := 0; j < k; j++ {
				p := &Payload{}
				c11Write(p, j+1)
				n.PublishContext(stop, "k", p)
			}
		}()
	}
	simrt.Quiesce(-1)
	cancel()
	simrt.Quiesce(-1)
	simrt.Probe("c11_notifier")
}

func c11Context() {
	nIn := simrt.DrawRange(1, 3)
	kind := simrt.Draw(4)
	order := make([]int, nIn)
	for i := range order {
		order[i] = simrt.DrawRange(0, 3)
	}
	type key struct{}
	ctxs := make([]context.Context, nIn)
	cancels := make([]context.CancelFunc, nIn)
	for i := range ctxs {
		ctxs[i], cancels[i] = context.WithCancel(context.WithValue(bg, key{}, i))
	}
	var out context.Context
	var outCancel context.CancelFunc = func() {}
	hits := new(Payload)
	var mu sync.Mutex
	switch kind {
	case 0:
		out = bigbuff.CombineContext(ctxs[0], ctxs[1:]...)
	case 1:
		out, outCancel = bigbuff.ConflatedContext(ctxs...)
	case 2:
		other := ctxs[nIn-1]
		bigbuff.ChainAfterFunc(ctxs[0], other, func() {
			mu.Lock()
			c11Write(hits, 1)
			mu.Unlock()
		})
		out = ctxs[0]
	default:
		// WaitCond with a cancelling context
		cond := sync.NewCond(&mu)
		go func() {
			mu.Lock()
			_ = bigbuff.WaitCond(ctxs[0], cond, func() bool { return c11Read(hits) > 0 })
			mu.Unlock()
		}()
		go func() {
			mu.Lock()
			c11Write(hits, 1)
			cond.Broadcast()
			mu.Unlock()
		}()
		out = ctxs[0]
	}
	for i := range cancels {
		c, d := cancels[i], order[i]
		go func() {
			time.Sleep(time.Duration(d) * time.Microsecond)
			c()
		}()
	}
	go func() {
		out.Err()
		out.Value(key{})
		select {
		case <-out.Done():
		case <-time.After(5 * time.Microsecond):
		}
		out.Err()
	}()
	simrt.Quiesce(-1)
	outCancel()
	for _, c := range cancels {
		c()
	}
	simrt.Quiesce(-1)
	simrt.Probe("c11_context")
}
