package harness

import (
	"sync"
	"time"

	"bbsim/simrt"

	bigbuff "github.com/joeycumines/go-bigbuff"
)

// C17 — Worker: one running instance while held, stopped only after every holder is done.
//
// Workload: 1-5 holder tasks, each 1-3 rounds of  Do(fn) ... done()  with drawn pauses in front of
// Do and between Do and done; some holders keep holding until the main task opens a gate at
// quiescence. Every fn(stop) is a fresh instance: it registers its stop channel with the harness,
// does some start-up work, waits for stop to be closed (contract), takes a drawn while to wind down,
// and returns. An OnStep hook polls the stop channel of every live instance after every scheduling
// step, which gives the exact stamp t_close at which an instance's stop channel became closed (for an
// instance that starts running only after its stop channel was closed, the first poll after its start:
// later than the truth, which only weakens the checks).
//
// A holder "holds" from the stamp taken right after Do returned to the stamp taken right before its
// done function is invoked.
//
// Checks:
//
//	C17.two-instances             fn started while an earlier instance had not returned
//	C17.fn-started-twice          the fn of one Do call was started more than once
//	C17.stopped-while-held        an instance's stop channel was found closed while a holder was
//	                              holding (= inv(done_H) < t_close(I) of DESIGN §5 violated)
//	C17.do-returned-while-stopping Do returned inside [t_close(I), end(I)]: it must wait for the
//	                              stopping instance to exit
//	C17.no-instance-while-held    quiescent with a holder holding: no instance is running with an open
//	                              stop channel (or more than one)
//	C17.no-instance-for-holder    at the end: a holder's Do returned at a stamp after which no instance
//	                              was running any more (a Do after/while stopping must get a fresh instance)
//	C17.instance-not-stopped      quiescent with nobody holding: an instance has not seen stop closed,
//	                              or has not returned
//	C17.do-stuck                  quiescent with nobody holding: a Do or done call has not returned
func init() {
	Register(Harness{Prop: "C17", Name: "C17/holders", Run: c17Holders, Weight: 4})
}

type wrRound struct {
	id, task     int
	pre, hold    pause
	gated        bool
	startup      pause
	winddown     pause
	lockPoint    bool
	inv, ret     int64 // Do
	dinv, dret   int64 // done
	invoked      bool
	holding      bool
	finished     bool
	fnStarts     int
	joinedExists bool
}

type wrInst struct {
	id                 int
	owner              *wrRound
	stop               <-chan struct{}
	start, tclose, end int64
}

type wrWorld struct {
	w      *bigbuff.Worker
	rounds []*wrRound
	insts  []*wrInst
	live   []*wrInst
	gate   chan struct{}
	opened bool
	mu     sync.Mutex
	unit   time.Duration
	inDo   int // Do calls invoked and not returned
}

func (x *wrWorld) holders() int {
	n := 0
	for _, r := range x.rounds {
		if r.holding {
			n++
		}
	}
	return n
}

// poll is the OnStep hook: stamp the instant every live instance's stop channel is found closed.
func (x *wrWorld) poll() {
	for _, in := range x.live {
		if in.tclose != 0 {
			continue
		}
		select {
		case <-in.stop:
			in.tclose = simrt.Stamp()
			simrt.Logf("instance %d: stop found closed, stamp %d", in.id, in.tclose)
			for _, r := range x.rounds {
				if r.holding {
					simrt.Failf("C17.stopped-while-held", "the stop channel of instance %d (started at stamp %d) was closed by stamp %d while holder %d (Do returned at stamp %d) had not called its done function",
						in.id, in.start, in.tclose, r.id, r.ret)
					break
				}
			}
		default:
		}
	}
}

func (x *wrWorld) fn(r *wrRound) func(stop <-chan struct{}) {
	return func(stop <-chan struct{}) {
		in := &wrInst{id: len(x.insts), owner: r, stop: stop, start: simrt.Stamp()}
		simrt.Logf("instance %d starts (fn of Do %d): stamp %d", in.id, r.id, in.start)
		for _, o := range x.live {
			simrt.Failf("C17.two-instances", "instance %d (fn of Do %d) started at stamp %d while instance %d (started at %d, stop closed at %d) had not returned",
				in.id, r.id, in.start, o.id, o.start, o.tclose)
		}
		r.fnStarts++
		if r.fnStarts > 1 {
			simrt.Failf("C17.fn-started-twice", "the fn passed to Do %d was started %d times", r.id, r.fnStarts)
		}
		if !r.invoked {
			simrt.Failf("C17.fn-started-twice", "the fn of Do %d started before the call", r.id)
		}
		x.insts = append(x.insts, in)
		x.live = append(x.live, in)
		select {
		case <-stop:
			simrt.Probe("instance_started_with_stop_already_closed")
		default:
		}
		r.startup.do(x.unit)
		if r.lockPoint {
			x.mu.Lock()
			x.mu.Unlock()
		}
		<-stop
		r.winddown.do(x.unit)
		if r.winddown.kind != 0 {
			simrt.Probe("instance_slow_to_exit")
		}
		in.end = simrt.Stamp()
		simrt.Logf("instance %d returns: stamp %d", in.id, in.end)
		for i, o := range x.live {
			if o == in {
				x.live = append(append([]*wrInst(nil), x.live[:i]...), x.live[i+1:]...)
				break
			}
		}
	}
}

func (x *wrWorld) round(r *wrRound) {
	r.pre.do(x.unit)
	for _, in := range x.live {
		if in.tclose != 0 {
			simrt.Probe("do_while_stopping")
		}
	}
	if x.holders() > 0 {
		simrt.Probe("do_while_another_holds")
	}
	r.invoked = true
	x.inDo++
	r.inv = simrt.Stamp()
	done := x.w.Do(x.fn(r))
	r.ret = simrt.Stamp()
	simrt.Logf("Do %d: invoked %d, returned %d", r.id, r.inv, r.ret)
	x.inDo--
	r.holding = true
	for _, in := range x.live {
		if in.tclose != 0 {
			simrt.Failf("C17.do-returned-while-stopping", "Do %d (invoked at stamp %d) returned at stamp %d while instance %d was stopping (stop closed at %d, not yet returned)",
				r.id, r.inv, r.ret, in.id, in.tclose)
			return
		}
		if in.owner != r {
			r.joinedExists = true
		}
	}
	if r.joinedExists {
		simrt.Probe("do_joined_running_instance")
	}
	if r.gated && !x.opened {
		simrt.Probe("holder_held_on_gate")
		<-x.gate
	} else {
		r.hold.do(x.unit)
	}
	if x.inDo > 0 {
		simrt.Probe("done_races_do")
	}
	if x.holders() == 1 {
		simrt.Probe("last_holder_done")
	}
	r.holding = false
	r.dinv = simrt.Stamp()
	simrt.Logf("done %d invoked: stamp %d", r.id, r.dinv)
	done()
	r.dret = simrt.Stamp()
	r.finished = true
}

func c17Holders() {
	x := &wrWorld{w: new(bigbuff.Worker), gate: make(chan struct{}), unit: time.Microsecond}
	nTasks := simrt.DrawRange(1, 5+3*(simrt.Scale()-1))
	gateProb := simrt.Draw(3)
	budget := 10
	tasks := make([][]*wrRound, nTasks)
	for i := range tasks {
		for k := simrt.DrawRange(1, 3); k > 0 && budget > 0; k-- {
			budget--
			r := &wrRound{id: len(x.rounds), task: i, pre: drawPause(), hold: drawPause(), startup: drawPause(), lockPoint: simrt.Chance(1, 4)}
			if simrt.Chance(1, 2) {
				r.winddown = pause{1 + simrt.Draw(2), simrt.DrawRange(1, 12)}
			}
			if gateProb > 0 && simrt.Chance(gateProb, 5) {
				r.gated = true
			}
			x.rounds = append(x.rounds, r)
			tasks[i] = append(tasks[i], r)
		}
	}
	simrt.OnStep(x.poll)
	for _, t := range tasks {
		t := t
		go func() {
			for _, r := range t {
				x.round(r)
				if simrt.Failed() {
					return
				}
			}
		}()
	}
	atRest := func(phase string) bool {
		// nobody holds and nothing can run: everything invoked so far must be over
		for _, r := range x.rounds {
			if r.invoked && !r.finished {
				simrt.Failf("C17.do-stuck", "%s: quiescent with nobody holding: round %d has not finished (Do returned: %v, done invoked: %v)", phase, r.id, r.ret != 0, r.dinv != 0)
				return false
			}
		}
		for _, in := range x.insts {
			if in.tclose == 0 || in.end == 0 {
				simrt.Failf("C17.instance-not-stopped", "%s: quiescent with nobody holding: instance %d (started at stamp %d) stop closed: %v, returned: %v", phase, in.id, in.start, in.tclose != 0, in.end != 0)
				return false
			}
		}
		return true
	}
	simrt.Quiesce(-1)
	if simrt.Failed() {
		return
	}
	if x.holders() > 0 {
		if len(x.live) != 1 || x.live[0].tclose != 0 {
			simrt.Failf("C17.no-instance-while-held", "quiescent with %d holder(s) between Do and done: %d instance(s) running, stop closed: %v", x.holders(), len(x.live), len(x.live) > 0 && x.live[0].tclose != 0)
			return
		}
		simrt.Probe("quiescent_while_held")
	} else if !atRest("before the gate opened") {
		return
	}
	x.opened = true
	close(x.gate)
	simrt.Quiesce(-1)
	if simrt.Failed() {
		return
	}
	if n := x.holders(); n > 0 {
		simrt.Failf("C17.do-stuck", "quiescent after the gate opened: %d holder(s) still between Do and done", n)
		return
	}
	if !atRest("at the end") {
		return
	}
	for _, r := range x.rounds {
		if !r.invoked {
			simrt.Failf("C17.do-stuck", "round %d was never reached", r.id)
			return
		}
		ok := false
		for _, in := range x.insts {
			if in.end > r.ret {
				ok = true
				// H's instance is the first one that ends after Do returned: its stop must not
				// have been closed before H invoked done
				if in.tclose < r.dinv {
					simrt.Failf("C17.stopped-while-held", "holder %d: Do returned at %d, done invoked at %d, but its instance %d had its stop channel closed at %d", r.id, r.ret, r.dinv, in.id, in.tclose)
					return
				}
				break
			}
		}
		if !ok {
			simrt.Failf("C17.no-instance-for-holder", "holder %d: Do returned at stamp %d, but no instance was running at or after that stamp (%d instances in total)", r.id, r.ret, len(x.insts))
			return
		}
	}
	if len(x.insts) > 1 {
		simrt.Probe("several_instances")
	}
}
