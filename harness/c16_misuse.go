package harness

import (
	"context"

	"bbsim/simrt"

	bigbuff "github.com/joeycumines/go-bigbuff"
)

// C16/after-misuse: 1-3 calls that panic and are recovered by their caller (ConflatedContext with no
// input, or with a nil input somewhere behind live ones), then an ordinary ConflatedContext of 1-3 live
// inputs and an ordinary CombineContext. A call that failed has left nothing behind: the later results are
// live while an input is, and cancelled once all (ConflatedContext) / one (CombineContext) of their inputs are.
func init() {
	Register(Harness{Prop: "C16", Name: "C16/after-misuse", Run: c16AfterMisuse, Weight: 1})
}

func c16AfterMisuse() {
	for k := simrt.DrawRange(1, 3); k > 0; k-- {
		simrt.Fault("invalid_call")
		var in []context.Context
		var cancels []context.CancelFunc
		if simrt.Chance(3, 4) {
			for i := simrt.DrawRange(1, 3); i > 0; i-- {
				c, cancel := context.WithCancel(context.Background())
				in = append(in, c)
				cancels = append(cancels, cancel)
			}
			in = append(in, nil)
			if simrt.Chance(1, 2) {
				c, cancel := context.WithCancel(context.Background())
				in = append(in, c)
				cancels = append(cancels, cancel)
			}
		}
		expectPanic(func() { bigbuff.ConflatedContext(in...) })
		for _, c := range cancels {
			c()
		}
		simrt.Quiesce(-1)
	}
	n := simrt.DrawRange(1, 3)
	ins := make([]context.Context, n)
	cancels := make([]context.CancelFunc, n)
	for i := range ins {
		ins[i], cancels[i] = context.WithCancel(context.Background())
	}
	res, rcancel := bigbuff.ConflatedContext(ins...)
	defer rcancel()
	primary, pcancel := context.WithCancel(context.Background())
	defer pcancel()
	other, ocancel := context.WithCancel(context.Background())
	defer ocancel()
	comb := bigbuff.CombineContext(primary, other)
	for i := 0; i < n; i++ {
		simrt.Quiesce(-1)
		if res.Err() != nil {
			simrt.Failf("C16.spurious", "after recovered misuse: the result of ConflatedContext is cancelled while %d of its %d inputs are live", n-i, n)
			return
		}
		cancels[i]()
	}
	simrt.Quiesce(-1)
	if res.Err() == nil {
		simrt.Failf("C16.missed", "after a recovered ConflatedContext call that panicked (no input / a nil input behind live ones): every one of the %d inputs of an ordinary ConflatedContext is cancelled, quiescent, and its result is not", n)
		return
	}
	if comb.Err() != nil {
		simrt.Failf("C16.spurious", "after recovered misuse: the result of CombineContext is cancelled while both inputs are live")
		return
	}
	ocancel()
	simrt.Quiesce(-1)
	if comb.Err() == nil {
		simrt.Failf("C16.missed", "after recovered misuse: the other input of CombineContext is cancelled, quiescent, and the result is not")
	}
}
