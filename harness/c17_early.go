package harness

import (
	"bbsim/simrt"

	bigbuff "github.com/joeycumines/go-bigbuff"
)

// C17/early-exit: the worker function may return on its own before it is told to stop. Its stop
// channel must still be closed once nobody holds the instance ("every started instance is stopped
// once nobody holds it"), and the next Do must start a fresh instance.
func init() {
	Register(Harness{Prop: "C17", Name: "C17/early-exit", Run: c17EarlyExit, Weight: 1})
}

func c17EarlyExit() {
	var w bigbuff.Worker
	rounds := simrt.DrawRange(1, 3)
	holders := simrt.DrawRange(1, 3)
	pauses := make([]pause, rounds*holders)
	for i := range pauses {
		pauses[i] = drawPause()
	}
	var stops []<-chan struct{}
	running := 0
	fn := func(stop <-chan struct{}) {
		running++
		if running > 1 {
			simrt.Failf("C17.two-instances", "two instances of the worker function are running")
		}
		stops = append(stops, stop)
		simrt.Probe("instance_returns_before_stop")
		running--
		// returns at once, without waiting for stop
	}
	isClosed := func(ch <-chan struct{}) bool {
		select {
		case <-ch:
			return true
		default:
			return false
		}
	}
	for r := 0; r < rounds; r++ {
		before := len(stops)
		finished := 0
		for h := 0; h < holders; h++ {
			p := pauses[r*holders+h]
			go func() {
				done := w.Do(fn)
				p.do(1000)
				done()
				finished++
			}()
		}
		simrt.Quiesce(-1)
		if simrt.Failed() {
			return
		}
		if finished != holders {
			simrt.Failf("C17.do-stuck", "round %d: %d of %d Do/done pairs have not returned at quiescence", r, holders-finished, holders)
			return
		}
		if len(stops) == before {
			simrt.Failf("C17.no-instance-for-holder", "round %d: %d holders called Do on an idle Worker and the worker function was never started", r, holders)
			return
		}
		for i, st := range stops {
			if st == nil {
				simrt.Failf("C17.instance-not-stopped", "instance %d was started with a nil stop channel", i)
				return
			}
			if !isClosed(st) {
				simrt.Failf("C17.instance-not-stopped", "nobody holds the Worker any more, yet the stop channel of instance %d (which had returned on its own) was never closed", i)
				return
			}
		}
	}
}

// C17/self-release: a fire-and-forget job. The holder hands its done function to the worker function,
// which calls it itself when the job is finished (it is then the last holder) and only afterwards
// sees its stop channel closed and returns. Nothing may wait for the instance's exit inside that call.
func init() {
	Register(Harness{Prop: "C17", Name: "C17/self-release", Run: c17SelfRelease, Weight: 1})
}

func c17SelfRelease() {
	var w bigbuff.Worker
	rounds := simrt.DrawRange(1, 3)
	for r := 0; r < rounds; r++ {
		hand := make(chan func(), 1)
		started, stopped, returned := 0, 0, false
		job := pause{1, simrt.DrawRange(0, 3)}
		pre := drawPause()
		fn := func(stop <-chan struct{}) {
			started++
			release := <-hand
			job.do(1000)
			simrt.Probe("done_called_by_the_worker_function")
			release() // the job is finished: nobody needs the instance any more
			<-stop
			stopped++
		}
		go func() {
			pre.do(1000)
			done := w.Do(fn)
			hand <- done
			returned = true
		}()
		simrt.Quiesce(-1)
		if simrt.Failed() {
			return
		}
		if !returned {
			simrt.Failf("C17.do-stuck", "round %d: Do has not returned at quiescence", r)
			return
		}
		if started != 1 {
			simrt.Failf("C17.no-instance-for-holder", "round %d: the worker function was started %d times for one Do on an idle Worker", r, started)
			return
		}
		if stopped != 1 {
			simrt.Failf("C17.instance-not-stopped", "round %d: the only holder's done function has been called (by the worker function itself), yet the instance has not seen its stop channel closed and returned", r)
			return
		}
	}
}

// C17/nil-fn: Do(nil) panics, as a call with a nil function must; its caller recovers and the Worker is
// used normally afterwards: the failed call has started nothing and has left nothing behind.
func init() {
	Register(Harness{Prop: "C17", Name: "C17/nil-fn", Run: c17NilFn, Weight: 1})
}

func c17NilFn() {
	var w bigbuff.Worker
	if simrt.Chance(1, 2) {
		// (sometimes after an ordinary round)
		started := false
		d := w.Do(func(stop <-chan struct{}) { started = true; <-stop })
		d()
		simrt.Quiesce(-1)
		if !started {
			simrt.Failf("C17.no-instance-for-holder", "the worker function was never started")
			return
		}
	}
	simrt.Fault("invalid_call")
	if !expectPanic(func() { w.Do(nil) }) {
		simrt.Probe("do_nil_did_not_panic")
	}
	started, stopped := 0, 0
	var done func()
	returned := false
	go func() {
		done = w.Do(func(stop <-chan struct{}) { started++; <-stop; stopped++ })
		returned = true
	}()
	simrt.Quiesce(-1)
	if !returned {
		simrt.Failf("C17.do-stuck", "after a recovered Do(nil), Do with a proper function has not returned at quiescence")
		return
	}
	if started != 1 {
		simrt.Failf("C17.no-instance-while-held", "after a recovered Do(nil): Do returned, its holder has not called done, and the worker function has been started %d times: an instance must be running while the Worker is held", started)
		return
	}
	done()
	simrt.Quiesce(-1)
	if stopped != 1 {
		simrt.Failf("C17.instance-not-stopped", "after a recovered Do(nil): the only holder has called done, the instance has not been stopped")
	}
}
