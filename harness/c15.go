package harness

import (
	"context"
	"fmt"
	"os"
	"sync"
	"time"

	"bbsim/simrt"

	bigbuff "github.com/joeycumines/go-bigbuff"
)

// C15: Notifier. A publish reaches each eligible subscription exactly once, and nobody else.
//
// c15PublishNil enables publishes of an untyped nil. On the unchanged tree every such publish that
// meets a live subscriber panics (defect D2, DESIGN.md section 7), so the switch exists to test
// everything else without them: BBSIM_C15_NIL=0 in the environment turns nil publishes off.
var c15PublishNil = os.Getenv("BBSIM_C15_NIL") != "0"

func init() {
	Register(Harness{Prop: "C15", Name: "C15/notifier", Run: c15Notifier, Weight: 5})
}

type c15T struct{ ID int }

type c15Err struct{ ID int }

func (e c15Err) Error() string { return fmt.Sprintf("e%d", e.ID) }

type c15KeyT struct{ N int }

// element types of target channels
const (
	c15EtInt = iota
	c15EtString
	c15EtAny
	c15EtError
	c15EtPtr
	c15EtNamed // chan c15Ints: a named slice type; an unnamed []int value is assignable to it, not identical
)

// value kinds of publishes
const (
	c15VkInt = iota
	c15VkString
	c15VkPtr
	c15VkErr
	c15VkNil
	c15VkSlice    // an unnamed []int
	c15VkNilPtr   // a typed nil: (*T)(nil)
	c15VkNilSlice // a typed nil: []int(nil)
)

// c15IsNil: the kinds whose receipts carry no uid (at most one such publish per run).
func c15IsNil(vk int) bool { return vk == c15VkNil || vk == c15VkNilPtr || vk == c15VkNilSlice }

// c15Ints is a named type whose underlying type is []int.
type c15Ints []int

var c15EtNames = []string{"chan int", "chan string", "chan any", "chan error", "chan *T", "chan NamedInts"}
var c15VkNames = []string{"int", "string", "*T", "error", "nil", "[]int", "(*T)(nil)", "[]int(nil)"}

// c15Assignable is the oracle's own table (Go assignability of the published value to the element
// type); an untyped nil is acceptable to the nilable element types.
func c15Assignable(vk, et int) bool {
	switch vk {
	case c15VkInt:
		return et == c15EtInt || et == c15EtAny
	case c15VkString:
		return et == c15EtString || et == c15EtAny
	case c15VkPtr:
		return et == c15EtPtr || et == c15EtAny
	case c15VkErr:
		return et == c15EtError || et == c15EtAny
	case c15VkNil:
		return et == c15EtAny || et == c15EtError || et == c15EtPtr || et == c15EtNamed
	case c15VkSlice, c15VkNilSlice:
		return et == c15EtNamed || et == c15EtAny
	case c15VkNilPtr:
		return et == c15EtPtr || et == c15EtAny
	}
	return false
}

func c15Value(vk, uid int) any {
	switch vk {
	case c15VkInt:
		return uid
	case c15VkString:
		return fmt.Sprintf("s%d", uid)
	case c15VkPtr:
		return &c15T{uid}
	case c15VkErr:
		return c15Err{uid}
	case c15VkSlice:
		return []int{uid}
	case c15VkNilPtr:
		return (*c15T)(nil) // a value with a type: goes where a *T goes, nowhere else
	case c15VkNilSlice:
		return []int(nil)
	}
	return nil
}

// c15Decode maps a received value back to the uid of its publish (0 = nil, -1 = unknown).
func c15Decode(v any) int {
	switch x := v.(type) {
	case nil:
		return 0
	case int:
		return x
	case string:
		uid := -1
		if _, err := fmt.Sscanf(x, "s%d", &uid); err != nil {
			return -1
		}
		return uid
	case *c15T:
		if x == nil {
			return 0
		}
		return x.ID
	case c15Err:
		return x.ID
	case []int:
		if x == nil {
			return 0
		}
		if len(x) == 1 {
			return x[0]
		}
	case c15Ints:
		if x == nil {
			return 0
		}
		if len(x) == 1 {
			return x[0]
		}
	}
	return -1
}

const (
	c15RecvReady = iota
	c15RecvLate
	c15RecvAbsent
)

type c15Chan struct {
	id       int
	et       int
	capacity int
	recvMode int
	pauses   []pause
	target   any
	recv     func(stop <-chan struct{}) (any, bool) // blocking receive, or stop
	poll     func() (any, bool)                     // non-blocking receive
	stop     chan struct{}
	active   int // subscriptions not finished yet
	subs     []*c15Sub
	count    int
	got      map[int]int // uid -> number of receipts (uid 0 = nil)
	alien    []any
}

func c15MkChan(et, capacity int) *c15Chan {
	c := &c15Chan{et: et, capacity: capacity, stop: make(chan struct{}), got: map[int]int{}}
	switch et {
	case c15EtInt:
		ch := make(chan int, capacity)
		c.target = ch
		c.recv = func(stop <-chan struct{}) (v any, ok bool) {
			select {
			case x := <-ch:
				v, ok = x, true
			case <-stop:
			}
			return
		}
		c.poll = func() (v any, ok bool) {
			select {
			case x := <-ch:
				v, ok = x, true
			default:
			}
			return
		}
	case c15EtString:
		ch := make(chan string, capacity)
		c.target = ch
		c.recv = func(stop <-chan struct{}) (v any, ok bool) {
			select {
			case x := <-ch:
				v, ok = x, true
			case <-stop:
			}
			return
		}
		c.poll = func() (v any, ok bool) {
			select {
			case x := <-ch:
				v, ok = x, true
			default:
			}
			return
		}
	case c15EtAny:
		ch := make(chan any, capacity)
		c.target = ch
		c.recv = func(stop <-chan struct{}) (v any, ok bool) {
			select {
			case x := <-ch:
				v, ok = x, true
			case <-stop:
			}
			return
		}
		c.poll = func() (v any, ok bool) {
			select {
			case x := <-ch:
				v, ok = x, true
			default:
			}
			return
		}
	case c15EtError:
		ch := make(chan error, capacity)
		c.target = ch
		c.recv = func(stop <-chan struct{}) (v any, ok bool) {
			select {
			case x := <-ch:
				v, ok = x, true
			case <-stop:
			}
			return
		}
		c.poll = func() (v any, ok bool) {
			select {
			case x := <-ch:
				v, ok = x, true
			default:
			}
			return
		}
	case c15EtNamed:
		ch := make(chan c15Ints, capacity)
		c.target = ch
		c.recv = func(stop <-chan struct{}) (v any, ok bool) {
			select {
			case x := <-ch:
				v, ok = x, true
			case <-stop:
			}
			return
		}
		c.poll = func() (v any, ok bool) {
			select {
			case x := <-ch:
				v, ok = x, true
			default:
			}
			return
		}
	default:
		ch := make(chan *c15T, capacity)
		c.target = ch
		c.recv = func(stop <-chan struct{}) (v any, ok bool) {
			select {
			case x := <-ch:
				v, ok = x, true
			case <-stop:
			}
			return
		}
		c.poll = func() (v any, ok bool) {
			select {
			case x := <-ch:
				v, ok = x, true
			default:
			}
			return
		}
	}
	return c
}

const (
	c15ModeSubscribe = iota
	c15ModeContext
	c15ModeCancel
)

type c15Sub struct {
	id         int
	key        int
	ch         *c15Chan
	mode       int
	preCancel  bool // mode Context: the context is already cancelled when subscribing
	parent     int  // mode Cancel: 0 nil parent, 1 live parent (cancel func used), 2 cancelled through the parent
	early      bool // subscribed by the main task before anything else starts
	subPause   pause
	leaveKind  int // 0 when the main task says so, 1 after leaveK receipts on the channel, 2 after a delay
	leaveK     int
	leaveDelay int
	unsubPause pause

	cancel                                        context.CancelFunc
	subInv, subRet, cancelInv, unsubInv, unsubRet int64
	cancelRet                                     int64 // the cancel function of its context has returned (0: unknown)
	doubleUnsub                                   bool  // its Unsubscribe is issued by two tasks at once
	leaveCh                                       chan struct{}
	left, done                                    bool
	pinned                                        bool
}

func (s *c15Sub) leave() {
	if !s.left {
		s.left = true
		close(s.leaveCh)
	}
}

type c15Pub struct {
	uid         int
	key         int
	vk          int
	mode        int // 0 Publish, 1 PublishContext(nil), 2 PublishContext(live ctx), 3 ctx cancelled after a delay, 4 ctx already cancelled
	p           pause
	cancelPause pause

	inv, ret, cancelInv int64
	started, returned   bool
	task                int
}

type c15Misuse struct {
	kind int // 0 duplicate subscribe, 1 unmatched unsubscribe (unknown pair), 2 unsubscribe of a fresh channel
	sub  int
	how  int
	p    pause
}

func c15Notifier() {
	unit := time.Microsecond
	keys := []any{"k1", 2, c15KeyT{3}}
	// ---------------- program ----------------
	nKeys := simrt.DrawRange(1, 3)
	nSubs := simrt.DrawRange(1, 5+3*(simrt.Scale()-1))
	var chans []*c15Chan
	var subs []*c15Sub
	pairs := map[[2]int]bool{} // (key, channel id) pairs in the plan
	for i := 0; i < nSubs; i++ {
		s := &c15Sub{id: i, key: simrt.Draw(nKeys), leaveCh: make(chan struct{})}
		// the channel: mostly a new one, sometimes one already used under another key
		if len(chans) > 0 && simrt.Chance(1, 6) {
			c := chans[simrt.Draw(len(chans))]
			if !pairs[[2]int{s.key, c.id}] {
				s.ch = c
				simrt.Probe("shared_channel")
			}
		}
		if s.ch == nil {
			c := c15MkChan(simrt.Draw(6), []int{0, 0, 0, 1, 2}[simrt.Draw(5)])
			c.id = len(chans)
			switch x := simrt.Draw(10); {
			case x < 5:
				c.recvMode = c15RecvReady
			case x < 8:
				c.recvMode = c15RecvLate
				for k := simrt.DrawRange(1, 4); k > 0; k-- {
					c.pauses = append(c.pauses, drawPause())
				}
			default:
				c.recvMode = c15RecvAbsent
			}
			chans = append(chans, c)
			s.ch = c
		}
		pairs[[2]int{s.key, s.ch.id}] = true
		s.ch.subs = append(s.ch.subs, s)
		s.ch.active++
		s.mode = simrt.Draw(3)
		s.doubleUnsub = simrt.Chance(1, 6)
		if s.ch.recvMode == c15RecvAbsent && s.mode == c15ModeSubscribe {
			// nobody receives: only the subscription's context can release a publisher
			s.mode = 1 + simrt.Draw(2)
		}
		if s.mode == c15ModeContext {
			s.preCancel = simrt.Chance(1, 8)
		}
		if s.mode == c15ModeCancel {
			s.parent = simrt.Draw(3)
		}
		s.early = simrt.Chance(2, 3)
		s.subPause = drawPause()
		s.unsubPause = drawPause()
		switch x := simrt.Draw(6); {
		case x < 3:
			s.leaveKind = 0
		case x < 5 && s.ch.recvMode != c15RecvAbsent:
			s.leaveKind, s.leaveK = 1, simrt.DrawRange(0, 3)
		default:
			s.leaveKind, s.leaveDelay = 2, simrt.DrawRange(0, 15)
		}
		subs = append(subs, s)
	}
	nilLeft := 0
	if c15PublishNil && simrt.Chance(1, 3) {
		nilLeft = 1 // at most one nil publish per run, so that a received nil is attributable
	}
	nPubTasks := simrt.DrawRange(1, 3+simrt.Scale()-1)
	pubTasks := make([][]*c15Pub, nPubTasks)
	var pubs []*c15Pub
	for t := range pubTasks {
		for k := simrt.DrawRange(1, 4); k > 0; k-- {
			p := &c15Pub{uid: 1000*(t+1) + k, key: simrt.Draw(nKeys), vk: []int{c15VkInt, c15VkString, c15VkPtr, c15VkErr, c15VkSlice}[simrt.Draw(5)], p: drawPause(), cancelPause: drawPause()}
			if nilLeft > 0 && simrt.Chance(1, 3) {
				nilLeft--
				p.vk = []int{c15VkNil, c15VkNil, c15VkNilPtr, c15VkNilSlice}[simrt.Draw(4)]
			}
			switch x := simrt.Draw(10); {
			case x < 4:
				p.mode = 0
			case x < 5:
				p.mode = 1
			case x < 7:
				p.mode = 2
			case x < 9:
				p.mode = 3
			default:
				p.mode = 4
			}
			pubTasks[t] = append(pubTasks[t], p)
			pubs = append(pubs, p)
		}
	}
	var misuses []c15Misuse
	for k := simrt.Draw(3); k > 0; k-- {
		misuses = append(misuses, c15Misuse{kind: simrt.Draw(3), sub: simrt.Draw(nSubs), how: simrt.Draw(3), p: drawPause()})
	}
	doubleUnsub := simrt.Chance(1, 3)
	// a duplicate subscribe must meet a pair that is certainly subscribed while the call runs: such
	// subscriptions are pinned (subscribed by the main task up front, a receiver is present, and the
	// main task lets them go only once the misuse task has finished)
	for _, m := range misuses {
		if s := subs[m.sub]; m.kind == 0 && s.early && s.leaveKind == 0 && s.ch.recvMode != c15RecvAbsent {
			s.pinned = true
		}
	}

	// ---------------- machinery ----------------
	var nf bigbuff.Notifier
	inflight := make([]int, nKeys) // publishes in flight per key
	note := func(c *c15Chan, v any) {
		uid := c15Decode(v)
		if uid < 0 {
			c.alien = append(c.alien, v)
			return
		}
		c.got[uid]++
		c.count++
		simrt.Probe("delivered")
		for _, s := range c.subs {
			if s.leaveKind == 1 && c.count >= s.leaveK {
				s.leave()
			}
		}
	}
	// expectPanic runs fn, which must panic (misuse); it reports whether it did.
	expectPanic := func(fn func()) (panicked bool) {
		defer func() {
			if r := recover(); r != nil {
				panicked = true
			}
		}()
		fn()
		return false
	}
	subscribe := func(s *c15Sub) {
		var ctx context.Context
		var cancel, pcancel context.CancelFunc
		switch s.mode {
		case c15ModeContext:
			ctx, cancel = context.WithCancel(context.Background())
			s.cancel = cancel
			if s.preCancel {
				s.cancelInv = simrt.Stamp()
				cancel()
				s.cancelRet = simrt.Stamp()
				simrt.Probe("subscribe_with_cancelled_ctx")
			}
		case c15ModeCancel:
			if s.parent > 0 {
				ctx, pcancel = context.WithCancel(context.Background())
			}
		}
		ok := true
		func() {
			defer func() {
				if r := recover(); r != nil {
					ok = false
					simrt.Failf("C15.subscribe-panic", "subscription %d (key %v, %s): subscribing a fresh key/target pair panicked: %v", s.id, keys[s.key], c15EtNames[s.ch.et], r)
				}
			}()
			s.subInv = simrt.Stamp()
			switch s.mode {
			case c15ModeSubscribe:
				nf.Subscribe(keys[s.key], s.ch.target)
			case c15ModeContext:
				nf.SubscribeContext(ctx, keys[s.key], s.ch.target)
			default:
				c := nf.SubscribeCancel(ctx, keys[s.key], s.ch.target)
				if s.parent == 2 {
					s.cancel = func() { pcancel(); c() }
				} else if pcancel != nil {
					s.cancel = func() { c(); pcancel() }
				} else {
					s.cancel = c
				}
			}
			s.subRet = simrt.Stamp()
		}()
		if ok {
			for _, p := range pubs {
				if p.key == s.key && p.started && !p.returned {
					simrt.Probe("subscribe_during_publish")
					break
				}
			}
		}
	}
	unsubscribe := func(s *c15Sub) {
		if inflight[s.key] > 0 {
			simrt.Probe("unsubscribe_during_publish")
		}
		defer func() {
			if r := recover(); r != nil {
				simrt.Failf("C15.unsubscribe-panic", "subscription %d: its one Unsubscribe panicked: %v", s.id, r)
			}
		}()
		s.unsubInv = simrt.Stamp()
		if s.doubleUnsub {
			// two tasks unsubscribe the one subscription at the same time (a clean-up path racing the
			// owner): exactly one of the calls removes it, the other is unmatched and panics
			simrt.Probe("racing_unsubscribes_of_one_subscription")
			panics := 0
			var wg sync.WaitGroup
			wg.Add(1)
			go func() {
				defer wg.Done()
				if expectPanic(func() { nf.Unsubscribe(keys[s.key], s.ch.target) }) {
					panics++
				}
			}()
			if expectPanic(func() { nf.Unsubscribe(keys[s.key], s.ch.target) }) {
				panics++
			}
			wg.Wait()
			s.unsubRet = simrt.Stamp()
			if panics != 1 && !simrt.Failed() {
				simrt.Failf("C15.unmatched-unsubscribe", "subscription %d: two concurrent Unsubscribe calls, %d of them panicked; exactly one removes the subscription, the other one is unmatched and must panic", s.id, panics)
			}
			return
		}
		nf.Unsubscribe(keys[s.key], s.ch.target)
		s.unsubRet = simrt.Stamp()
	}
	control := func(s *c15Sub) {
		if !s.early {
			s.subPause.do(unit)
			subscribe(s)
			if simrt.Failed() {
				return
			}
		}
		if s.leaveKind == 2 {
			select {
			case <-s.leaveCh:
			case <-time.After(time.Duration(s.leaveDelay) * unit):
			}
		} else {
			<-s.leaveCh
		}
		if s.mode != c15ModeSubscribe {
			if s.cancelInv == 0 {
				s.cancelInv = simrt.Stamp()
			}
			simrt.Fault("ctx_cancel")
			if inflight[s.key] > 0 {
				simrt.Probe("subscriber_ctx_cancel_during_publish")
			}
			s.cancel()
			if s.cancelRet == 0 {
				s.cancelRet = simrt.Stamp()
			}
		}
		switch s.mode {
		case c15ModeCancel:
			s.unsubInv = s.cancelInv // the library unsubscribes by itself, some time after the cancel
		case c15ModeContext:
			s.unsubPause.do(unit)
			unsubscribe(s)
		default:
			unsubscribe(s) // the receiver keeps receiving until this has returned
		}
		s.done = true
		s.ch.active--
		if s.ch.active == 0 {
			close(s.ch.stop)
		}
	}
	publish := func(p *c15Pub) {
		var ctx context.Context
		var cancel context.CancelFunc
		if p.mode >= 2 {
			ctx, cancel = context.WithCancel(context.Background())
			defer cancel()
		}
		switch p.mode {
		case 3:
			go func() {
				p.cancelPause.do(unit)
				p.cancelInv = simrt.Stamp()
				if p.started && !p.returned {
					simrt.Fault("ctx_cancel")
					simrt.Probe("publish_cancelled_mid_flight")
				}
				cancel()
			}()
		case 4:
			p.cancelInv = simrt.Stamp()
			cancel()
		}
		v := c15Value(p.vk, p.uid)
		if p.vk == c15VkNil {
			simrt.Probe("nil_publish")
		} else if c15IsNil(p.vk) {
			simrt.Probe("typed_nil_publish")
		}
		defer func() {
			if r := recover(); r != nil {
				simrt.Failf("C15.publish-panic", "publish %d of %s value %v under key %v panicked: %v", p.uid, c15VkNames[p.vk], v, keys[p.key], r)
			}
		}()
		inflight[p.key]++
		p.started = true
		p.task = simrt.CurrentID()
		p.inv = simrt.Stamp()
		if p.mode == 0 {
			nf.Publish(keys[p.key], v)
		} else {
			nf.PublishContext(ctx, keys[p.key], v)
		}
		p.ret = simrt.Stamp()
		p.returned = true
		inflight[p.key]--
	}

	// ---------------- run ----------------
	for _, c := range chans {
		c := c
		if c.recvMode == c15RecvAbsent {
			simrt.Probe("absent_receiver")
			continue
		}
		go func() {
			for i := 0; ; i++ {
				if c.recvMode == c15RecvLate {
					c.pauses[i%len(c.pauses)].do(unit)
				}
				v, ok := c.recv(c.stop)
				if !ok {
					return
				}
				note(c, v)
			}
		}()
	}
	for _, s := range subs {
		if s.early {
			subscribe(s)
			if simrt.Failed() {
				return
			}
		}
	}
	for _, s := range subs {
		s := s
		go control(s)
	}
	for _, t := range pubTasks {
		t := t
		go func() {
			for _, p := range t {
				p.p.do(unit)
				if simrt.Failed() {
					return
				}
				publish(p)
			}
		}()
	}
	misuseDone := 0
	if len(misuses) > 0 {
		go func() {
			for _, m := range misuses {
				m.p.do(unit)
				s := subs[m.sub]
				switch m.kind {
				case 0:
					// duplicate subscribe of a pair that is subscribed for the whole workload
					if !s.pinned {
						break
					}
					simrt.Fault("misuse")
					simrt.Probe("duplicate_subscribe")
					if !expectPanic(func() {
						switch m.how {
						case 0:
							nf.Subscribe(keys[s.key], s.ch.target)
						case 1:
							// were the registry entry replaced, later publishes would skip the target
							dead, cancel := context.WithCancel(context.Background())
							cancel()
							nf.SubscribeContext(dead, keys[s.key], s.ch.target)
						default:
							nf.SubscribeCancel(nil, keys[s.key], s.ch.target)
						}
					}) {
						simrt.Failf("C15.misuse-no-panic", "a second subscribe of key %v and the same %s target did not panic", keys[s.key], c15EtNames[s.ch.et])
						return
					}
				case 1:
					// unsubscribe of a key/target pair that is never subscribed in this run
					k := -1
					for kk := 0; kk < len(keys); kk++ {
						if !pairs[[2]int{kk, s.ch.id}] {
							k = kk
							break
						}
					}
					if k < 0 {
						break
					}
					simrt.Fault("misuse")
					simrt.Probe("unmatched_unsubscribe")
					if !expectPanic(func() { nf.Unsubscribe(keys[k], s.ch.target) }) {
						simrt.Failf("C15.misuse-no-panic", "Unsubscribe of key %v and a target only subscribed under other keys did not panic", keys[k])
						return
					}
				default:
					simrt.Fault("misuse")
					simrt.Probe("unmatched_unsubscribe")
					fresh := make(chan int)
					if !expectPanic(func() { nf.Unsubscribe(keys[s.key], fresh) }) {
						simrt.Failf("C15.misuse-no-panic", "Unsubscribe of a target that was never subscribed did not panic")
						return
					}
				}
			}
			misuseDone = 1
		}()
	} else {
		misuseDone = 1
	}

	// cancelledStuck: a publish whose own context has been cancelled must not sit in its select any
	// more at quiescence (it may still wait for the registry lock behind a pending Unsubscribe).
	cancelledStuck := func(phase string) bool {
		tasks := simrt.Tasks()
		for _, p := range pubs {
			if p.started && !p.returned && p.cancelInv != 0 && p.task >= 0 && p.task < len(tasks) {
				t := tasks[p.task]
				// between started and returned the task runs nothing but the library's publish, so
				// "blocked in a real channel operation" means: in PublishContext's select (a wait for
				// the registry lock is a simulated block, not a real one)
				if t.State == simrt.RealBlocked {
					simrt.Failf("C15.stuck", "%s: quiescent, the context of publish %d (key %v) was cancelled (stamp %d), yet PublishContext is still blocked in its select (%s)", phase, p.uid, keys[p.key], p.cancelInv, t.On)
					return true
				}
			}
		}
		return false
	}
	stuck := func(phase string) bool {
		for _, p := range pubs {
			if p.started && !p.returned {
				simrt.Failf("C15.stuck", "%s: quiescent, yet publish %d (key %v, %s) has not returned although no subscription is left that could hold it (every target has a receiver, or its context was cancelled, or it was unsubscribed)", phase, p.uid, keys[p.key], c15VkNames[p.vk])
				return true
			}
		}
		for _, s := range subs {
			if s.left && !s.done {
				simrt.Failf("C15.stuck", "%s: quiescent, yet subscription %d has not finished cancelling/unsubscribing although nothing can hold a publisher", phase, s.id)
				return true
			}
		}
		return false
	}
	// phase 1: the workload, until nothing moves
	simrt.Quiesce(-1)
	if simrt.Failed() {
		return
	}
	excuse := false
	for _, s := range subs {
		if s.ch.recvMode == c15RecvAbsent && s.subInv != 0 && s.cancelInv == 0 && s.unsubRet == 0 {
			excuse = true // a publisher may legitimately wait for this one (and hold the registry lock)
		}
	}
	if cancelledStuck("after the workload") {
		return
	}
	if excuse {
		tasks := simrt.Tasks()
		for _, p := range pubs {
			if !(p.started && !p.returned) {
				continue
			}
			simrt.Probe("publish_blocked_at_quiescence")
			// a publish that sits in its wait for the targets (blocked in a real channel operation, see
			// cancelledStuck) may be held by a target nobody receives from, but not keep a target waiting
			// that HAS a receiver: the targets are served as they become ready, in any order
			if p.cancelInv != 0 || p.task < 0 || p.task >= len(tasks) || tasks[p.task].State != simrt.RealBlocked {
				continue
			}
			simrt.Probe("publish_in_its_wait_at_quiescence")
			for _, c := range chans {
				if c.recvMode != c15RecvReady || !c15Assignable(p.vk, c.et) {
					continue
				}
				for _, x := range c.subs {
					if x.key != p.key || x.subRet == 0 || x.subRet > p.inv || x.unsubInv != 0 || x.cancelInv != 0 {
						continue
					}
					cnt := c.got[p.uid]
					if c15IsNil(p.vk) {
						cnt = c.got[0]
					}
					simrt.Probe("ready_target_checked_while_publish_waits")
					if cnt == 0 {
						simrt.Failf("C15.ready-not-served", "quiescent: publish %d (key %v) is waiting for a target nobody receives from, while target %d, subscribed throughout (subscription %d) and with a receiver waiting, has not been given the value: every eligible subscription is served as soon as it is ready", p.uid, keys[p.key], c.id, x.id)
						return
					}
				}
			}
		}
	} else if stuck("after the workload") {
		return
	}
	// phase 2: everybody leaves; the pinned ones only after the misuse task is through
	for _, s := range subs {
		if !s.pinned {
			s.leave()
		}
	}
	simrt.Quiesce(-1)
	if simrt.Failed() {
		return
	}
	if misuseDone == 0 {
		simrt.Failf("C15.stuck", "a misuse call (expected to panic) is still blocked at quiescence although every remaining subscription has a receiver")
		return
	}
	for _, s := range subs {
		s.leave()
	}
	simrt.Quiesce(-1)
	if simrt.Failed() {
		return
	}
	if stuck("after every subscription was cancelled / unsubscribed") {
		return
	}
	for _, s := range subs {
		if !s.done {
			simrt.Failf("C15.stuck", "subscription %d did not finish", s.id)
			return
		}
	}
	if misuseDone == 0 {
		simrt.Failf("C15.stuck", "a misuse call (expected to panic) is still blocked at quiescence")
		return
	}
	for _, p := range pubs {
		if !p.started {
			simrt.Failf("C15.stuck", "publish %d never started", p.uid)
			return
		}
	}
	now := simrt.Stamp()
	for _, s := range subs {
		if s.unsubRet == 0 {
			s.unsubRet = now // SubscribeCancel: quiescent after the cancel, the library's Unsubscribe is over
		}
	}
	// phase 3: nothing is subscribed any more
	if doubleUnsub {
		s := subs[0]
		simrt.Fault("misuse")
		simrt.Probe("second_unsubscribe")
		if !expectPanic(func() { nf.Unsubscribe(keys[s.key], s.ch.target) }) {
			simrt.Failf("C15.misuse-no-panic", "a second Unsubscribe of key %v and the same target did not panic", keys[s.key])
			return
		}
	}
	for k := 0; k < nKeys; k++ {
		for vk := 0; vk < 4; vk++ {
			p := &c15Pub{uid: 9000 + 10*k + vk, key: k, vk: vk, mode: 0}
			pubs = append(pubs, p)
			publish(p)
			if simrt.Failed() {
				return
			}
		}
	}
	simrt.Quiesce(-1)
	for _, c := range chans {
		for {
			v, ok := c.poll()
			if !ok {
				break
			}
			note(c, v)
		}
	}
	// ---------------- oracle ----------------
	var nilPub *c15Pub
	byUID := map[int]*c15Pub{}
	for _, p := range pubs {
		byUID[p.uid] = p
		if c15IsNil(p.vk) {
			nilPub = p
		}
	}
	for _, c := range chans {
		if len(c.alien) > 0 {
			simrt.Failf("C15.alien-value", "%s target %d received %v, which nobody published", c15EtNames[c.et], c.id, c.alien[0])
			return
		}
		for uid := range c.got {
			if uid == 0 && nilPub == nil {
				simrt.Failf("C15.alien-value", "%s target %d received nil, which nobody published", c15EtNames[c.et], c.id)
				return
			}
			if uid != 0 && byUID[uid] == nil {
				simrt.Failf("C15.alien-value", "%s target %d received a value with id %d, which nobody published", c15EtNames[c.et], c.id, uid)
				return
			}
		}
	}
	for _, p := range pubs {
		for _, c := range chans {
			cnt := c.got[p.uid]
			if c15IsNil(p.vk) {
				cnt = c.got[0]
			}
			var s *c15Sub
			for _, x := range c.subs {
				if x.key == p.key {
					s = x
				}
			}
			desc := fmt.Sprintf("publish %d (%s under key %v, calls [%d,%d]) and %s target %d", p.uid, c15VkNames[p.vk], keys[p.key], p.inv, p.ret, c15EtNames[c.et], c.id)
			if s == nil {
				if cnt > 0 {
					simrt.Failf("C15.wrong-target", "%s: received %d time(s), but the target is not subscribed under that key", desc, cnt)
					return
				}
				continue
			}
			if !c15Assignable(p.vk, c.et) {
				if cnt > 0 {
					simrt.Failf("C15.wrong-target", "%s: received %d time(s), but the value is not assignable to the element type", desc, cnt)
					return
				}
				continue
			}
			sd := fmt.Sprintf("%s; subscription %d: subscribe [%d,%d], context cancel at %d, unsubscribe [%d,%d]", desc, s.id, s.subInv, s.subRet, s.cancelInv, s.unsubInv, s.unsubRet)
			if cnt > 1 {
				simrt.Failf("C15.duplicate", "%s: received %d times from one publish", sd, cnt)
				return
			}
			if cnt > 0 && p.inv > s.unsubRet {
				simrt.Failf("C15.after-unsubscribe", "%s: received although the publish began after Unsubscribe had returned", sd)
				return
			}
			if cnt > 0 && s.mode != c15ModeSubscribe && s.cancelRet != 0 && s.cancelRet < p.inv {
				simrt.Failf("C15.delivered-after-cancel", "%s: received although the subscription's context had been cancelled (cancel returned at %d) before the publish began", sd, s.cancelRet)
				return
			}
			if cnt > 0 && p.returned && s.subInv > p.ret {
				simrt.Failf("C15.before-subscribe", "%s: received although the publish had returned before the subscribe call began", sd)
				return
			}
			must := p.returned && s.subRet != 0 && s.subRet < p.inv &&
				(s.unsubInv == 0 || s.unsubInv > p.ret) &&
				(s.mode == c15ModeSubscribe || s.cancelInv == 0 || s.cancelInv > p.ret) &&
				(p.cancelInv == 0 || p.cancelInv > p.ret)
			if must {
				simrt.Probe("must_receive")
				if cnt != 1 {
					simrt.Failf("C15.missed", "%s: the subscription existed throughout the publish, accepts the value, neither context was cancelled before the publish returned, yet the value was received %d times", sd, cnt)
					return
				}
			}
		}
	}
	// nothing of the library may be left: every SubscribeCancel goroutine has unsubscribed
	for _, t := range simrt.Tasks() {
		if t.Lib && t.State != simrt.Done {
			simrt.Failf("C15.stuck", "library goroutine %s is still %v on %s after every subscription was cancelled", t.Name, t.State, t.On)
			return
		}
	}
}
