package harness

import (
	"context"
	"time"

	"bbsim/simrt"

	bigbuff "github.com/joeycumines/go-bigbuff"
)

func init() {
	Register(Harness{Prop: "C20", Name: "C20/attempt", Run: c20Attempt})
}

// c20 receiver paces
const (
	c20Prompt = iota
	c20Paused
	c20Heavy
	c20Absent
	c20Late // sleeps until the very instant of the timed cancel (and of a tick), then receives promptly
)

// c20 cancel plans
const (
	c20Never     = iota // only the final clean-up cancel, after the channel was seen closed
	c20Before           // cancel() returned before LinearAttempt is invoked
	c20Race             // a canceller task races the LinearAttempt call itself
	c20AfterTime        // after a drawn simulated delay
	c20AfterK           // after the k-th value was received
	c20AfterStep        // after a drawn number of scheduling steps
	c20Quiet            // by the main task at a quiescent instant (nothing running, no tick due): closing must not need a tick
)

type c20State struct {
	ch        <-chan time.Time
	count     int
	rate      time.Duration
	cancelInv int64
	cancelRet int64
	lenAtCanc int // len(ch) read in the same step as cancel() returned (1 if the channel was not known yet)
	received  int
	afterCanc int // values obtained by receives that started after cancel() returned
	last      time.Time
	lastAt    time.Duration
	recvSeq   int
	inRecv    bool
	recvDone  bool
	sawClosed bool
}

// record accounts one received value; inv is the stamp taken right before the receive started.
func (st *c20State) record(v time.Time, inv int64, who string) bool {
	st.received++
	if st.received > st.count {
		simrt.Failf("C20.too-many-values", "%s received value number %d from LinearAttempt(count=%d)", who, st.received, st.count)
		return false
	}
	if st.received > 1 && v.Before(st.last) {
		simrt.Failf("C20.timestamps-decrease", "value %d carries %v, earlier than the previous value's %v", st.received, v.Sub(simrt.Epoch), st.last.Sub(simrt.Epoch))
		return false
	}
	st.last = v
	if st.cancelRet != 0 && inv > st.cancelRet {
		st.afterCanc++
		simrt.Probe("value_after_cancel")
		if st.afterCanc >= 2 {
			simrt.Probe("tick_after_cancel")
		}
		// what a receive begun after cancel() returned can still obtain: whatever was buffered when
		// cancel returned, plus the single send that was already past its context check
		if st.afterCanc > st.lenAtCanc+1 {
			simrt.Failf("C20.values-after-cancel", "%d values were obtained by receives that began after cancel() had returned, but only %d was buffered at that instant (+1 in flight allowed)", st.afterCanc, st.lenAtCanc)
			return false
		}
	}
	return true
}

func c20LibAlive(n0 int) (alive bool, desc string) {
	for _, t := range simrt.Tasks() {
		if t.ID >= n0 && t.Lib && t.State != simrt.Done {
			return true, t.Name + " (" + t.State.String() + " on " + t.On + ")"
		}
	}
	return false, ""
}

func c20TickerReqs() int {
	n := 0
	for _, r := range simrt.TimerLog() {
		if r.Desc == "ticker" {
			n++
		}
	}
	return n
}

// c20ErrOnly is cancelled through Err() only.
type c20ErrOnly struct {
	context.Context
	never     chan struct{}
	cancelled bool
}

func (c *c20ErrOnly) Done() <-chan struct{} { return c.never }
func (c *c20ErrOnly) Err() error {
	if c.cancelled {
		return context.Canceled
	}
	return nil
}
func (c *c20ErrOnly) cancel() { c.cancelled = true }

func c20Attempt() {
	// ---- the whole program is drawn up front
	count := simrt.DrawRange(1, 6*simrt.Scale())
	rate := []time.Duration{time.Microsecond, 50 * time.Microsecond, time.Millisecond, 100 * time.Millisecond}[simrt.Draw(4)]
	half := rate / 2
	recvMode := []int{c20Prompt, c20Paused, c20Paused, c20Heavy, c20Absent, c20Late}[simrt.Draw(6)]
	cancelMode := []int{c20Never, c20Never, c20Before, c20Race, c20AfterTime, c20AfterTime, c20AfterK, c20AfterK, c20AfterStep, c20Quiet}[simrt.Draw(10)]
	takeFirst := simrt.Chance(1, 2)
	deadlineDraw := simrt.Chance(1, 2)
	errOnlyDraw := simrt.Chance(1, 3)
	raceStall := simrt.DrawRange(0, 5)
	cancelSleep := simrt.DrawRange(0, 2*count+2) // in half rates
	cancelStall := simrt.DrawRange(0, 40)
	cancelK := simrt.DrawRange(1, count)
	kStall := simrt.DrawRange(0, 10)
	absentIters := simrt.DrawRange(0, 3)
	pauses := make([]pause, count+2)
	pauseUnits := 0
	for i := range pauses {
		switch recvMode {
		case c20Paused:
			pauses[i] = drawPause()
			if pauses[i].kind == 1 {
				pauses[i].n = (pauses[i].n + 1) / 2 // up to 3 rates
			}
		case c20Heavy:
			if simrt.Chance(2, 3) {
				pauses[i] = pause{1, simrt.DrawRange(3, 10)}
			} else {
				pauses[i] = pause{2, simrt.DrawRange(10, 60)}
			}
		}
		if pauses[i].kind == 1 {
			pauseUnits += pauses[i].n
		}
	}
	if recvMode == c20Late && cancelSleep > 0 {
		pauses[0] = pause{1, cancelSleep}
		pauseUnits += cancelSleep
	}

	n0 := len(simrt.Tasks())
	// the context ends either by its cancel function or (timed mode, half of the runs) by its deadline
	byDeadline := cancelMode == c20AfterTime && deadlineDraw
	ctx, cancel := context.WithCancel(context.Background())
	if byDeadline {
		d := time.Duration(cancelSleep) * half
		if d <= 0 {
			d = half
		}
		ctx, cancel = context.WithTimeout(context.Background(), d)
	}
	// ... or (timed mode, sometimes) is a context whose Done channel never fires and whose Err() alone
	// reports the cancellation: LinearAttempt re-checks Err() after every tick for exactly this case
	// (also cancelled before or while LinearAttempt is called: "already closed and empty" is decided by Err())
	errOnly := (cancelMode == c20AfterTime || cancelMode == c20Before || cancelMode == c20Race) && !byDeadline && errOnlyDraw
	if errOnly {
		eo := &c20ErrOnly{Context: context.Background(), never: make(chan struct{})}
		ctx, cancel = eo, eo.cancel
		simrt.Probe("context_cancelled_through_err_only")
	}
	if !errOnly && !byDeadline && simrt.Chance(1, 5) {
		// cancellation from one context, values from another one that stays live (request values, server
		// lifetime): whether this context is cancelled is what ITS Err says
		vals, vcancel := context.WithCancel(context.Background())
		defer vcancel()
		ctx = c20Split{ctx, vals}
		simrt.Probe("context_with_values_from_a_live_context")
	}
	ctxDone := ctx.Done() // fetched here so that the step hook below polls it without touching the context's lock
	st := &c20State{count: count, rate: rate}
	tickReqsAtCancel := 0 // ticker (re)arm requests logged when cancel() returned
	doCancel := func() {
		if st.cancelInv != 0 {
			cancel()
			return
		}
		st.cancelInv = simrt.Stamp()
		simrt.Fault("ctx_cancel")
		cancel()
		st.cancelRet = simrt.Stamp()
		tickReqsAtCancel = c20TickerReqs()
		st.lenAtCanc = 1
		if st.ch != nil {
			st.lenAtCanc = len(st.ch)
		}
	}
	simrt.OnStep(func() {
		if byDeadline && st.cancelInv == 0 {
			select {
			case <-ctxDone:
				// the deadline passed: this is the instant of cancellation
				st.cancelInv = simrt.Stamp()
				st.cancelRet = simrt.Stamp()
				st.lenAtCanc = 1
				if st.ch != nil {
					st.lenAtCanc = len(st.ch)
				}
				simrt.Fault("ctx_deadline")
			default:
			}
		}
		if st.ch != nil && (cap(st.ch) != 1 || len(st.ch) > 1) && !simrt.Failed() {
			simrt.Failf("C20.buffer", "the returned channel has cap %d and %d values buffered", cap(st.ch), len(st.ch))
		}
	})

	switch cancelMode {
	case c20Before:
		doCancel()
	case c20Race:
		go func() {
			simrt.Stall(raceStall)
			doCancel()
		}()
	}

	callInv := simrt.Stamp()
	ch := bigbuff.LinearAttempt(ctx, rate, count)
	st.ch = ch
	cancelledByNow := st.cancelInv != 0 // read in the same step as the return
	buffered := len(ch)
	if cap(ch) != 1 {
		simrt.Failf("C20.buffer", "cap of the returned channel is %d", cap(ch))
		return
	}
	switch {
	case st.cancelRet != 0 && st.cancelRet < callInv:
		select {
		case v, ok := <-ch:
			if ok {
				simrt.Failf("C20.value-after-precancel", "context cancelled before the call, yet the channel yielded %v", v.Sub(simrt.Epoch))
				return
			}
			simrt.Probe("precancelled_closed_empty")
		default:
			simrt.Failf("C20.not-closed", "context cancelled before the call, but the returned channel is open and empty")
			return
		}
	case !cancelledByNow:
		if buffered != 1 {
			simrt.Failf("C20.first-not-immediate", "LinearAttempt returned with %d values buffered: the first value must be available immediately", buffered)
			return
		}
	default:
		simrt.Probe("cancel_raced_call")
	}
	if takeFirst {
		inv := simrt.Stamp()
		select {
		case v, ok := <-ch:
			if ok {
				simrt.Probe("first_value_taken_inline")
				if !st.record(v, inv, "the caller") {
					return
				}
			}
		default:
			if !cancelledByNow {
				simrt.Failf("C20.first-not-immediate", "a non-blocking receive right after the call found nothing")
				return
			}
		}
	}

	kch := make(chan struct{})
	kClosed := false
	kCheck := func() {
		if !kClosed && st.received >= cancelK {
			kClosed = true
			close(kch)
		}
	}
	kCheck()

	if recvMode != c20Absent {
		go func() {
			defer func() { st.recvDone = true }()
			for i := 0; ; i++ {
				if i < len(pauses) {
					pauses[i].do(half)
				}
				waited := simrt.Now() - st.lastAt
				had := len(ch)
				st.recvSeq++
				st.inRecv = true
				inv := simrt.Stamp()
				v, ok := <-ch
				st.inRecv = false
				if !ok {
					st.sawClosed = true
					if st.cancelInv == 0 && st.received < count {
						simrt.Failf("C20.closed-early", "channel closed after %d of %d values although the context was never cancelled", st.received, count)
					}
					return
				}
				if had == 1 && st.received > 0 && waited >= 2*rate {
					simrt.Probe("slow_receiver_tick_dropped")
				}
				st.lastAt = simrt.Now()
				if !st.record(v, inv, "the receiver") {
					return
				}
				kCheck()
			}
		}()
	} else {
		simrt.Probe("absent_receiver")
	}

	switch cancelMode {
	case c20AfterTime:
		if byDeadline {
			break // the context expires by itself
		}
		go func() {
			time.Sleep(time.Duration(cancelSleep) * half)
			if st.inRecv {
				simrt.Probe("cancel_while_receiver_blocked")
			}
			doCancel()
		}()
	case c20AfterStep:
		go func() {
			simrt.Stall(cancelStall)
			doCancel()
		}()
	case c20AfterK:
		go func() {
			<-kch
			simrt.Stall(kStall)
			doCancel()
		}()
	}

	// ---- drive the run with bounded quiescence: the ticker is periodic while the producer lives
	maxIter := pauseUnits/2 + cancelSleep/2 + 4*count + 16
	lastSeq, lastIn := -1, false
	windowsAfterCancel := 0
	for iter := 0; ; iter++ {
		cancelledAtStart := st.cancelRet != 0
		simrt.Quiesce(2 * rate)
		if simrt.Failed() {
			return
		}
		if cancelledAtStart {
			windowsAfterCancel++
		}
		alive, desc := c20LibAlive(n0)
		if !alive {
			break
		}
		if errOnly && st.cancelRet != 0 && (windowsAfterCancel < 1 || c20TickerReqs() < tickReqsAtCancel+2) {
			// a context that only reports through Err() is noticed at the next tick: wait until one tick
			// has certainly fired after the cancellation (the ticker may not even have existed yet: its
			// creation is one request in the timer log, every tick that fires re-arms it with another)
			continue
		}
		if st.cancelRet != 0 {
			simrt.Failf("C20.producer-alive-after-cancel", "quiescent after cancel() returned, but the producing goroutine is still there: %s", desc)
			return
		}
		if st.received >= count {
			simrt.Failf("C20.not-closed", "quiescent after the %d-th of %d values was received, but the producing goroutine is still there: %s", st.received, count, desc)
			return
		}
		if st.cancelInv == 0 && st.inRecv && lastIn && lastSeq == st.recvSeq {
			simrt.Failf("C20.tick-not-delivered", "receiver blocked on the open, never cancelled channel for more than a full rate (%v) with %d of %d values received", rate, st.received, count)
			return
		}
		lastSeq, lastIn = st.recvSeq, st.inRecv
		if st.cancelInv == 0 && iter >= absentIters && (cancelMode == c20Quiet || recvMode == c20Absent && (cancelMode == c20Never || cancelMode == c20AfterK)) {
			if recvMode == c20Absent {
				simrt.Probe("cancel_with_absent_receiver")
			}
			simrt.Probe("cancel_at_quiescence")
			doCancel()
			simrt.Quiesce(0) // no tick is allowed to fire: the close must come from the cancellation alone
			if simrt.Failed() {
				return
			}
			if alive, desc := c20LibAlive(n0); alive {
				simrt.Failf("C20.cancel-not-prompt", "cancel() returned, everything is quiescent without letting another tick fire, and the producing goroutine is still there: %s", desc)
				return
			}
		}
		if iter > maxIter {
			simrt.Failf("C20.no-progress", "producer still alive after %d quiescence rounds of two rates each (received %d of %d, cancel invoked %v)", iter, st.received, count, st.cancelInv != 0)
			return
		}
	}
	// the producer is gone (or never existed): its ticker must be stopped
	t1 := c20TickerReqs()
	simrt.Quiesce(3 * rate)
	if t2 := c20TickerReqs(); t2 > t1 {
		simrt.Failf("C20.ticker-not-stopped", "the producing goroutine has exited but its ticker was re-armed %d times afterwards", t2-t1)
		return
	}
	simrt.Quiesce(-1)
	if simrt.Failed() {
		return
	}
	if recvMode != c20Absent && !st.recvDone {
		simrt.Failf("C20.not-closed", "the producing goroutine has exited, all timers are drained, and the receiver is still blocked: the channel was not closed (received %d of %d, cancelled %v)", st.received, count, st.cancelInv != 0)
		return
	}
	// drain what is left (absent receiver): at most the buffered value, then closed
	for closed := false; !closed; {
		inv := simrt.Stamp()
		select {
		case v, ok := <-ch:
			if !ok {
				closed = true
				break
			}
			if !st.record(v, inv, "the final drain") {
				return
			}
		default:
			simrt.Failf("C20.not-closed", "at the end (producer gone, cancelled %v, received %d of %d) the channel is open and empty", st.cancelInv != 0, st.received, count)
			return
		}
	}
	if st.cancelInv == 0 && st.received != count {
		simrt.Failf("C20.closed-early", "channel closed after %d of %d values although the context was never cancelled", st.received, count)
		return
	}
	if st.received == count {
		simrt.Probe("all_values_received")
	}
	// clean-up
	if !kClosed {
		kClosed = true
		close(kch)
	}
	doCancel()
	simrt.Quiesce(-1)
	if alive, desc := c20LibAlive(n0); alive {
		simrt.Failf("C20.producer-alive-after-cancel", "at the end a library goroutine is still there: %s", desc)
	}
}

// c20Split takes Done/Err/Deadline from one context and its values from another.
type c20Split struct {
	context.Context
	vals context.Context
}

func (c c20Split) Value(k any) any { return c.vals.Value(k) }
