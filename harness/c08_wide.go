package harness

import (
	"bbsim/simrt"

	bigbuff "github.com/joeycumines/go-bigbuff"
)

// C08/wide: one Add(+W) with W from a few to several thousand, one task receiving the W copies, a few
// sends, and late registrants that arrive while the first broadcast is under way (released by the receiving
// task at a drawn receipt). Every size-dependent path of a broadcast (batching, yielding, a counter
// narrower than the count) is inside the range. The clauses are the counting ones: Send returns the number
// of copies received, a registration that begins after a copy of v has been delivered receives a later
// value and never v, everything returns, the count ends at 0.
func init() {
	Register(Harness{Prop: "C08", Name: "C08/wide", Run: c08Wide, Weight: 1})
}

func c08Wide() {
	var w int
	switch k := simrt.Draw(16); {
	case k < 11:
		w = simrt.DrawRange(1, 64)
	case k < 13:
		w = simrt.DrawRange(200, 1400)
	case k < 15:
		w = simrt.DrawRange(4000, 4400)
	default:
		w = simrt.DrawRange(8100, 8400)
	}
	if w > 64 {
		simrt.Probe("wide_fan_out")
	}
	cc := bigbuff.NewChanCaster(make(chan int))
	nSend := simrt.DrawRange(2, 3)
	nLate := simrt.DrawRange(0, 2)
	stop := make(chan struct{})
	firstAt := make([]int64, nSend+1) // stamp right after the first receipt of value i
	counts := make([]int, nSend+1)
	rets := make([]int, nSend+1)
	sent := make([]bool, nSend+1)
	received := 0
	triggers := make([]chan struct{}, nLate)
	at := make([]int, nLate)
	for i := range triggers {
		triggers[i] = make(chan struct{})
		at[i] = simrt.DrawRange(0, w)
	}
	note := func(v int) {
		if v < 1 || v > nSend {
			simrt.Failf("C08.count", "received %d, which no Send was given", v)
			return
		}
		counts[v]++
		if firstAt[v] == 0 {
			firstAt[v] = simrt.Stamp()
		}
	}
	release := func() {
		for i := range triggers {
			if at[i] == received && triggers[i] != nil {
				close(triggers[i])
				triggers[i] = nil
			}
		}
	}
	func() {
		defer ccGuard("Add(+W)")
		if n := cc.Add(w); n != w {
			simrt.Failf("C08.add-result", "first call, Add(%d)=%d", w, n)
		}
	}()
	if simrt.Failed() {
		return
	}
	go func() {
		defer ccGuard("receiver of the W units")
		release()
		for received < w {
			v := <-cc.C
			note(v)
			if v != 1 && !simrt.Failed() {
				simrt.Failf("C08.missed", "%d units registered by one Add before any Send: receipt %d is the value of Send #%d, the first Send has to serve all of them", w, received+1, v)
				return
			}
			received++
			release()
		}
	}()
	sendsOver := false
	go func() {
		defer ccGuard("sender")
		for v := 1; v <= nSend; v++ {
			if v > 1 {
				drawPause().do(1000)
			}
			rets[v] = cc.Send(v)
			sent[v] = true
		}
		sendsOver = true
	}()
	type late struct {
		addInv int64
		got    bool
		val    int
		over   bool
	}
	lates := make([]*late, nLate)
	for i := range lates {
		l := &late{}
		lates[i] = l
		trig := triggers[i]
		go func() {
			defer ccGuard("late registrant")
			<-trig
			simrt.Stall(simrt.DrawRange(0, 6))
			l.addInv = simrt.Stamp()
			cc.Add(1)
			select {
			case v := <-cc.C:
				l.got, l.val = true, v
				note(v)
			case <-stop:
				cc.Add(-1)
			}
			l.over = true
		}()
	}
	simrt.Quiesce(-1)
	if simrt.Failed() {
		return
	}
	if !sendsOver || received < w {
		simrt.Failf("C08.blocked", "quiescent, %d units registered and receiving (%d received so far), late registrants receiving: Send has not returned (returned so far: %v)", w, received, sent)
		return
	}
	close(stop)
	simrt.Quiesce(-1)
	if simrt.Failed() {
		return
	}
	for i, l := range lates {
		if !l.over {
			simrt.Failf("C08.blocked", "shutdown: late registrant %d has not returned from Add", i)
			return
		}
		if l.got && firstAt[l.val] != 0 && firstAt[l.val] < l.addInv {
			simrt.Failf("C08.late-unit", "a unit whose Add(+1) began (stamp %d) after a copy of value %d had been delivered (stamp %d) received that value: a registration during a Send counts for a later Send (W=%d)", l.addInv, l.val, firstAt[l.val], w)
			return
		}
	}
	for v := 1; v <= nSend; v++ {
		if rets[v] != counts[v] {
			simrt.Failf("C08.count", "Send(%d) returned %d, %d copies were received (W=%d, %d late registrants)", v, rets[v], counts[v], w, nLate)
			return
		}
	}
	func() {
		defer ccGuard("Add(0)")
		if n := cc.Add(0); n != 0 {
			simrt.Failf("C08.final-count", "every unit received or deregistered: Add(0)=%d", n)
		}
	}()
}
