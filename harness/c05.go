package harness

import (
	"context"
	"errors"
	"sync"
	"time"

	"bbsim/simrt"

	bigbuff "github.com/joeycumines/go-bigbuff"
)

var errC05Cause = errors.New("c05: the cause given to the cancel function")

func init() {
	Register(Harness{Prop: "C05", Name: "C05/waitcond", Run: func() { c05WaitCond(false) }})
	// the same with a cond whose locker is the read side of an RWMutex (waiters hold the read lock,
	// whoever changes the condition holds the write lock): legal for sync.Cond, see D6 in DESIGN.md section 7
	Register(Harness{Prop: "C05", Name: "C05/waitcond-rlocker", Run: func() { c05WaitCond(true) }})
	Register(Harness{Prop: "C05", Name: "C05/get", Run: c05Get, Weight: 2})
}

// c05WaitCond: 1-3 waiters on one cond, each waiting for a shared counter to reach its own target
// under its own context; setters increment the counter and broadcast under the lock; cancellers
// cancel contexts; some waiters are never satisfied and never cancelled until the final phase.
func c05WaitCond(rlocker bool) {
	var mu sync.RWMutex // used as a plain mutex unless rlocker
	cond := sync.NewCond(&mu)
	waiterLock, waiterUnlock := mu.Lock, mu.Unlock
	if rlocker {
		cond = sync.NewCond(mu.RLocker())
		waiterLock, waiterUnlock = mu.RLock, mu.RUnlock
		simrt.Probe("cond_on_read_locker")
	}
	counter := 0
	nw := simrt.DrawRange(1, 3*simrt.Scale())
	incs := simrt.DrawRange(0, 3*simrt.Scale())
	type waiter struct {
		target       int
		ctx          context.Context
		cancel       context.CancelFunc
		cancelled    bool // cancel invoked (set before the call)
		willCancel   bool
		returned     bool
		err          error
		lastPred     bool
		predCalls    int
		unlockedPred bool
	}
	ws := make([]*waiter, nw)
	for i := range ws {
		w := &waiter{target: simrt.DrawRange(0, 4), willCancel: simrt.Chance(1, 3)}
		if simrt.Chance(1, 4) {
			// a context cancelled with a cause: WaitCond must still return the context's error
			cctx, ccancel := context.WithCancelCause(context.Background())
			w.ctx, w.cancel = cctx, func() { ccancel(errC05Cause) }
			simrt.Probe("context_with_cause")
		} else {
			w.ctx, w.cancel = context.WithCancel(context.Background())
		}
		if simrt.Chance(1, 8) {
			// already cancelled before the wait starts
			w.cancelled = true
			w.cancel()
			simrt.Fault("ctx_cancel")
		}
		ws[i] = w
	}
	for _, w := range ws {
		w := w
		go func() {
			waiterLock()
			err := bigbuff.WaitCond(w.ctx, cond, func() bool {
				w.predCalls++
				if mu.TryLock() {
					w.unlockedPred = true
					mu.Unlock()
				}
				w.lastPred = counter >= w.target
				return w.lastPred
			})
			waiterUnlock()
			w.err = err
			w.returned = true
		}()
	}
	for i := 0; i < incs; i++ {
		go func() {
			if simrt.Chance(1, 2) {
				time.Sleep(time.Duration(simrt.DrawRange(0, 3)) * time.Microsecond)
			}
			mu.Lock()
			counter++
			cond.Broadcast()
			mu.Unlock()
		}()
	}
	for _, w := range ws {
		w := w
		if w.willCancel {
			go func() {
				if simrt.Chance(1, 2) {
					time.Sleep(time.Duration(simrt.DrawRange(0, 3)) * time.Microsecond)
				}
				w.cancelled = true
				simrt.Fault("ctx_cancel")
				w.cancel()
			}()
		}
	}
	check := func(phase string) bool {
		for i, w := range ws {
			if w.unlockedPred {
				simrt.Failf("C05.pred-without-lock", "waiter %d: predicate ran while the cond's lock could be acquired", i)
				return false
			}
			must := counter >= w.target || w.cancelled
			if must && !w.returned {
				why := ""
				if counter < w.target {
					why = " (its predicate is false: only the cancellation of its context can release it)"
				}
				simrt.Failf("C05.lost-wakeup", "%s: waiter %d (target %d, counter %d, cancelled %v) is still blocked at quiescence%s", phase, i, w.target, counter, w.cancelled, why)
				return false
			}
			if w.returned {
				if w.err == nil && !w.lastPred {
					simrt.Failf("C05.nil-without-pred", "waiter %d returned nil but its last predicate evaluation was false", i)
					return false
				}
				if w.err == nil && counter < w.target {
					simrt.Failf("C05.nil-without-pred", "waiter %d returned nil with counter %d < target %d", i, counter, w.target)
					return false
				}
				if w.err != nil && !w.cancelled {
					simrt.Failf("C05.spurious-error", "waiter %d returned %v although its context was never cancelled", i, w.err)
					return false
				}
				if w.err != nil && w.err != context.Canceled {
					simrt.Failf("C05.wrong-error", "waiter %d returned %v, not the context's error", i, w.err)
					return false
				}
			}
			if !must && w.returned {
				simrt.Failf("C05.early-return", "%s: waiter %d returned (%v) with counter %d < target %d and no cancellation", phase, i, w.err, counter, w.target)
				return false
			}
		}
		return true
	}
	simrt.Quiesce(-1)
	if !check("after workload") {
		return
	}
	// final phase: cancel whoever is left, without any broadcast by the harness
	left := false
	for _, w := range ws {
		if !w.returned {
			left = true
			simrt.Probe("never_broadcast_cancel")
			w.cancelled = true
			simrt.Fault("ctx_cancel")
			w.cancel()
		}
	}
	if left {
		simrt.Quiesce(-1)
		if !check("after final cancel") {
			return
		}
	}
	for _, w := range ws {
		w.cancel()
	}
}

// c05Get: one consumer task issues Gets on an initially empty (or nearly empty) buffer, each under
// its own context; a producer Puts at drawn moments; cancellers cancel individual Gets; optionally
// the Buffer is closed mid-run. Values are 0,1,2,... from a single producer, so the value a Get must
// return is known exactly.
func c05Get() {
	b := new(bigbuff.Buffer)
	cool := []time.Duration{0, time.Microsecond, time.Millisecond, 10 * time.Millisecond}[simrt.Draw(4)]
	if err := b.SetCleanerConfig(bigbuff.CleanerConfig{Cleaner: bigbuff.DefaultCleaner, Cooldown: cool}); err != nil {
		simrt.Failf("C05.setup", "%v", err)
		return
	}
	c, err := b.NewConsumer()
	if err != nil {
		simrt.Failf("C05.setup", "%v", err)
		return
	}
	nGets := simrt.DrawRange(1, 5*simrt.Scale())
	nPuts := simrt.DrawRange(0, 5*simrt.Scale())
	closeBuf := simrt.Chance(1, 4)
	diffAt := -1
	if simrt.Chance(1, 3) {
		diffAt = simrt.DrawRange(0, 6)
	}
	nilAt := -1 // position of a nil value (nil is a legal value like any other)
	if nPuts > 0 && simrt.Chance(1, 4) {
		nilAt = simrt.Draw(nPuts)
		simrt.Probe("nil_value_put")
	}
	type get struct {
		ctx        context.Context
		cancel     context.CancelFunc
		cancelled  bool
		started    bool
		returned   bool
		willCancel bool
		byDeadline bool
		delay      int
	}
	gets := make([]*get, nGets)
	for i := range gets {
		g := &get{willCancel: simrt.Chance(1, 3), delay: simrt.DrawRange(0, 3)}
		g.ctx, g.cancel = context.WithCancel(context.Background())
		if simrt.Chance(1, 5) {
			// ended by a deadline instead of a cancel call: the error of a failed Get is this context's
			g.ctx, g.cancel = context.WithTimeout(context.Background(), time.Duration(simrt.DrawRange(1, 4))*time.Microsecond)
			g.willCancel, g.byDeadline = false, true
			simrt.Probe("get_with_deadline_context")
		}
		gets[i] = g
	}
	puts := 0        // completed Puts
	pos := 0         // consumer read position (successful Gets)
	closing := false // Buffer.Close invoked
	consumerDone := false
	cur := -1
	go func() { // consumer
		defer func() { consumerDone = true }()
		for i, g := range gets {
			cur = i
			g.started = true
			v, err := c.Get(g.ctx)
			g.returned = true
			if err != nil {
				if g.byDeadline && !closing && g.ctx.Err() != nil && err != g.ctx.Err() && !g.cancelled {
					simrt.Failf("C05.wrong-error", "Get %d failed with %v; its context ended with %v, and that is the error a Get interrupted by its context returns", i, err, g.ctx.Err())
					return
				}
				if !g.cancelled && !closing && !(g.byDeadline && g.ctx.Err() != nil) {
					simrt.Failf("C05.spurious-error", "Get %d returned %v although neither its context was cancelled nor the buffer closed", i, err)
					return
				}
				simrt.Probe("get_failed")
				continue // the next Get must return the same position
			}
			want := interface{}(pos)
			if pos == nilAt {
				want = nil
			}
			if v != want {
				simrt.Failf("C05.failed-get-consumed", "Get %d returned %v, expected the value at position %d (a failed Get must consume nothing)", i, v, pos)
				return
			}
			pos++
			if simrt.Chance(1, 2) {
				if err := c.Commit(); err != nil && !closing {
					simrt.Failf("C05.commit", "Commit failed: %v", err)
					return
				}
			}
		}
		_ = c.Rollback()
	}()
	go func() { // producer
		for i := 0; i < nPuts; i++ {
			if d := simrt.DrawRange(0, 4); d > 0 {
				if simrt.Chance(1, 2) {
					time.Sleep(time.Duration(d) * time.Microsecond)
				} else {
					simrt.Stall(d * 5)
				}
			}
			v := interface{}(i)
			if i == nilAt {
				v = nil
			}
			if err := b.Put(context.Background(), v); err != nil {
				if !closing {
					simrt.Failf("C05.put", "Put failed: %v", err)
				}
				return
			}
			puts++
		}
	}()
	for i, g := range gets {
		g := g
		i := i
		if g.willCancel {
			go func() {
				// cancel around the time the Get is (about to be) parked
				for k := 0; k < g.delay; k++ {
					time.Sleep(time.Microsecond)
				}
				if !g.started && simrt.Chance(1, 2) {
					simrt.Stall(20)
				}
				g.cancelled = true
				simrt.Fault("ctx_cancel")
				if g.started && !g.returned {
					simrt.Probe("cancel_while_get_in_flight")
				}
				g.cancel()
				_ = i
			}()
		}
	}
	differDone := true
	if diffAt >= 0 {
		differDone = false
		go func() {
			defer func() { differDone = true }()
			time.Sleep(time.Duration(diffAt) * time.Microsecond)
			simrt.Probe("diff_while_get_may_be_blocked")
			b.Diff(c) // waits for a blocked Get of this consumer to finish, never longer
		}()
	}
	if closeBuf {
		go func() {
			time.Sleep(time.Duration(simrt.DrawRange(0, 6)) * time.Microsecond)
			closing = true
			simrt.Fault("close_handle")
			if cur >= 0 && gets[cur].started && !gets[cur].returned {
				simrt.Probe("close_while_get_in_flight")
			}
			_ = b.Close()
		}()
	}
	simrt.Quiesce(-1)
	if simrt.Failed() {
		return
	}
	if !consumerDone {
		g := gets[cur]
		if puts > pos || g.cancelled || closing {
			simrt.Failf("C05.lost-wakeup", "Get %d is still blocked at quiescence although puts=%d > position=%d or cancelled=%v or buffer closing=%v", cur, puts, pos, g.cancelled, closing)
			return
		}
		// legitimately blocked: nothing to read. Cancel the remaining Gets one by one; each must return.
		simrt.Probe("blocked_get_cancelled_at_end")
		for !consumerDone {
			before := cur
			g := gets[before]
			g.cancelled = true
			simrt.Fault("ctx_cancel")
			g.cancel()
			simrt.Quiesce(-1)
			if simrt.Failed() {
				return
			}
			if !consumerDone && cur == before {
				simrt.Failf("C05.lost-wakeup", "Get %d did not return after its context was cancelled", cur)
				return
			}
		}
	}
	for _, g := range gets {
		g.cancel()
	}
	if !closing {
		_ = b.Close()
	}
	simrt.Quiesce(-1)
	if !differDone && !simrt.Failed() {
		simrt.Failf("C05.lost-wakeup", "a Diff on the consumer has not returned although every Get has returned and the buffer is closed")
	}
}
