package harness

import (
	"time"

	"bbsim/simrt"

	bigbuff "github.com/joeycumines/go-bigbuff"
)

// C04/first-use: SetCleanerConfig is one of several first calls made on a zero-value Buffer at the
// same time (the lazy initialiser is meant to cope with that, see C12/first-use). The configuration
// SetCleanerConfig acknowledged is the one in force afterwards: with FixedBufferCleaner(max, target)
// and no cooldown the quiescent size is at most max, however the racing initialisers were ordered.
//
// Not reused by C11: the unlocked first reads of the initialiser are the documented exception there.
func init() {
	Register(Harness{Prop: "C04", Name: "C04/first-use", Run: c04FirstUse})
	raceSkip["C04/first-use"] = true
}

func c04FirstUse() {
	b := new(bigbuff.Buffer)
	max := simrt.DrawRange(1, 5)
	target := simrt.DrawRange(0, max)
	cool := []time.Duration{0, time.Microsecond}[simrt.Draw(2)]
	n := simrt.DrawRange(1, 3)
	kinds := make([]int, n)
	pauses := make([]pause, n+1)
	for i := range kinds {
		kinds[i] = simrt.Draw(4)
		pauses[i] = drawPause()
	}
	pauses[n] = drawPause()
	var cons []bigbuff.Consumer
	returned := 0
	go func() {
		pauses[n].do(1000)
		if err := b.SetCleanerConfig(bigbuff.CleanerConfig{Cleaner: bigbuff.FixedBufferCleaner(max, target, nil), Cooldown: cool}); err != nil {
			simrt.Failf("C04.setup", "SetCleanerConfig: %v", err)
			return
		}
		returned++
	}()
	for i := 0; i < n; i++ {
		i := i
		go func() {
			defer func() { returned++ }()
			pauses[i].do(1000)
			switch kinds[i] {
			case 0:
				c, err := b.NewConsumer()
				if err != nil {
					simrt.Failf("C04.setup", "NewConsumer on a fresh buffer failed: %v", err)
					return
				}
				cons = append(cons, c)
			case 1:
				if err := b.Put(bg, make([]interface{}, simrt.DrawRange(1, 3))...); err != nil {
					simrt.Failf("C04.put", "Put on a fresh buffer failed: %v", err)
				}
			case 2:
				b.Size()
			case 3:
				b.CleanerConfig()
			}
		}()
	}
	simrt.Quiesce(-1)
	if simrt.Failed() {
		return
	}
	if returned != n+1 {
		simrt.Failf("C04.first-use-blocked", "%d of the %d racing first calls on a zero-value Buffer have not returned at quiescence", n+1-returned, n+1)
		return
	}
	simrt.Probe("cleaner_configured_during_racing_first_use")
	if got := b.CleanerConfig().Cooldown; got != cool {
		simrt.Failf("C04.config-lost", "SetCleanerConfig(FixedBufferCleaner(%d,%d), cooldown %v) returned nil, but CleanerConfig() now reports cooldown %v", max, target, cool, got)
		return
	}
	if len(cons) == 0 {
		c, err := b.NewConsumer()
		if err != nil {
			simrt.Failf("C04.setup", "NewConsumer: %v", err)
			return
		}
		cons = append(cons, c)
	}
	// a consumer that never reads: only a forced trim keeps the buffer bounded
	total := max + simrt.DrawRange(1, 6)
	for i := 0; i < total; i++ {
		if err := b.Put(bg, i); err != nil {
			simrt.Failf("C04.put", "Put failed: %v", err)
			return
		}
	}
	simrt.Quiesce(-1)
	if simrt.Failed() {
		return
	}
	if got := b.Size(); got > max {
		simrt.Failf("C04.fixed-exceeds-max", "quiescent with FixedBufferCleaner(max=%d,target=%d), cooldown %v, configured during the racing first calls: Size()=%d > max after %d more values were put", max, target, cool, got, total)
		return
	}
	_ = b.Close()
	simrt.Quiesce(-1)
}
