package harness

// C09 — Exclusive: at most one work function per key at a time; keys are independent.
//
// Workload: c09_common.go (shared with C10). Checks owned by this property:
//
//	C09.overlap              a work function for a key started while an earlier one for the same key
//	                         had not RETURNED (resolved is not enough)
//	C09.blocked-by-other-key with the work of one key held on a harness gate and the system
//	                         quiescent, a call (or execution) on another key has not completed
//	C09.call-stuck           quiescent with nothing held: a call has not completed
func init() {
	Register(Harness{Prop: "C09", Name: "C09/mix", Run: func() { exclusiveRun("C09") }, Weight: 4})
}
