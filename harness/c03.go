package harness

import (
	"bbsim/simrt"
)

func init() {
	Register(Harness{Prop: "C03", Name: "C03/default", Run: func() { c03Run(false) }, Weight: 2})
	Register(Harness{Prop: "C03", Name: "C03/trim", Run: func() { c03Run(true) }, Weight: 2})
}

// c03Run reuses the C01 workload, biased towards slow consumers and late creations, and judges
// retention instead of order.
func c03Run(trim bool) {
	r := newBufRun(bufMode{prop: "C03", forcedTrim: trim})
	withAuditor := simrt.Chance(2, 3) && !r.huge
	var aud *bufCons
	if withAuditor {
		aud = r.newConsumer(true, false)
		if aud == nil {
			return
		}
	}
	nCons := simrt.DrawRange(1, 4+2*(simrt.Scale()-1))
	plans := make([]consPlan, nCons)
	for i := range plans {
		plans[i] = drawConsPlan(12)
		if simrt.Chance(1, 3) {
			for n := simrt.DrawRange(1, 4); n > 0; n-- {
				plans[i].diffWatch = append(plans[i].diffWatch, drawPause())
			}
		}
	}
	r.producers(2)
	if aud != nil {
		r.startAuditor(aud)
	}
	for _, p := range plans {
		r.runConsPlan(p)
	}
	r.observer()
	r.observer()
	if !r.finish() {
		return
	}
	// barrier: everything is quiet, so Size and Slice must agree exactly
	s := r.snapshot(true)
	z := r.snapshot(false)
	if simrt.Failed() {
		return
	}
	if s.n != z.n {
		simrt.Failf("C03.size-slice", "quiescent buffer: len(Slice())=%d but Size()=%d", s.n, z.n)
		return
	}
	if c03Oracle(r) {
		r.shutdown()
		// "Slice and Size always equal the not-yet-evicted suffix": closing evicts nothing, and the
		// snapshots taken so far (and scribbled over by snapshot) are the caller's own copies
		for pass := 0; pass < 2 && !simrt.Failed(); pass++ {
			a := r.snapshot(true)
			if simrt.Failed() {
				return
			}
			if a.n != s.n || r.b.Size() != s.n {
				simrt.Failf("C03.size-slice", "after Close: len(Slice())=%d, Size()=%d, but the quiescent buffer held %d values before the Close", a.n, r.b.Size(), s.n)
				return
			}
			for i, v := range a.vals {
				if v != s.vals[i] {
					simrt.Failf("C03.slice-content", "after Close (pass %d): Slice()[%d]=%v, it was %v before the Close and nothing has been evicted", pass, i, v, s.vals[i])
					return
				}
			}
		}
	}
}

// consModel replays a single-user consumer's operations: base-relative read position after each op.
type consTrack struct {
	base      int     // absolute position of the first value it ever read (-1 unknown)
	commits   []int64 // inv stamps of successful commits
	commitCum []int   // committed count after each of them
}

func trackConsumer(r *bufRun, k *bufCons) consTrack {
	t := consTrack{base: -1}
	committed, delta := 0, 0
	for _, op := range k.ops {
		switch op.kind {
		case "get":
			if op.ok {
				if t.base < 0 && r.orderOK {
					t.base = r.pos[op.v] - committed - delta
				}
				delta++
			}
		case "commit":
			if op.ok {
				committed += delta
				delta = 0
				t.commits = append(t.commits, op.inv)
				t.commitCum = append(t.commitCum, committed)
			}
		case "rollback":
			if op.ok {
				delta = 0
			}
		}
	}
	return t
}

// committedUpper is the largest committed count the consumer can have had at any time <= stamp.
func (t consTrack) committedUpper(stamp int64) int {
	c := 0
	for i, inv := range t.commits {
		if inv < stamp {
			c = t.commitCum[i]
		}
	}
	return c
}

func c03Oracle(r *bufRun) bool {
	// (g) every cleaner invocation equals the reference function
	for _, c := range r.cleaner_ {
		want, check := 0, true
		switch r.cleaner {
		case "default":
			want = refDefaultCleaner(c.size, c.offsets)
		case "fixed":
			if c.size > r.max {
				// back to the target size, and never short of what the default removes ("forces cleanup
				// past the default"): see D5 in DESIGN.md section 7
				want = c.size - r.target
				if d := refDefaultCleaner(c.size, c.offsets); d > want {
					want = d
				}
			} else {
				want = refDefaultCleaner(c.size, c.offsets)
			}
		default:
			check = false
		}
		if check && c.result != want {
			simrt.Failf("C03.cleaner-function", "%s cleaner returned %d for size=%d offsets=%v, expected %d", r.cleaner, c.result, c.size, c.offsets, want)
			return false
		}
		for _, o := range c.offsets {
			if o < 0 {
				simrt.Probe("cleaner_saw_negative_offset")
			}
		}
	}
	tracks := make([]consTrack, len(r.cons))
	for i, k := range r.cons {
		tracks[i] = trackConsumer(r, k)
	}
	for i, k := range r.cons {
		behind := false
		readpos := 0 // reads relative to base: committed + delta
		committed, delta := 0, 0
		for j, op := range k.ops {
			switch op.kind {
			case "get":
				if op.ok && behind {
					simrt.Failf("C03.behind-but-served", "consumer %d: Diff exceeded Size (its next value was evicted) yet a later Get returned %v", k.id, op.v)
					return false
				}
				if op.ok {
					delta++
				}
				if !op.ok && !op.ctxErr {
					// (a) under the default cleaner nothing unread is ever evicted
					if r.cleaner == "default" {
						simrt.Failf("C03.default-evicted", "default cleaner: consumer %d (op %d) got a non-context error from Get: its next value was evicted or its offset is wrong", k.id, j)
						return false
					}
					if r.forced == 0 {
						simrt.Failf("C03.error-without-trim", "consumer %d got a non-context error from Get although no forced trim ever happened", k.id)
						return false
					}
					simrt.Probe("lagging_consumer_failed_loudly")
				}
			case "commit":
				if op.ok {
					committed += delta
					delta = 0
				}
			case "rollback":
				if op.ok {
					delta = 0
				}
			case "diff":
				if !op.known {
					if k.closeInv == 0 || op.ret < k.closeInv {
						simrt.Failf("C03.diff-unknown", "Diff reported an open consumer of this buffer as unknown")
						return false
					}
					continue
				}
				if op.n > op.size {
					behind = true
					simrt.Probe("diff_exceeds_size")
				}
				// (f) Diff == values put - read position, bracketed by the Puts overlapping the call
				if b := tracks[i].base; b >= 0 {
					readpos = b + committed + delta
					lo, hi := 0, 0
					for _, p := range r.puts {
						if p.ret < op.inv {
							lo += len(p.vals)
						}
						if p.inv < op.ret {
							hi += len(p.vals)
						}
					}
					if op.n < lo-readpos || op.n > hi-readpos {
						simrt.Failf("C03.diff-value", "consumer %d: Diff()=%d but its read position is %d and between %d and %d values had been put", k.id, op.n, readpos, lo, hi)
						return false
					}
				}
			}
		}
	}
	// Diff taken by a second goroutine while the consumer's user works: the read position is the same
	// before and after a Commit, so only Gets, Rollbacks and Puts overlapping the call widen the bracket
	for i, k := range r.cons {
		b := tracks[i].base
		if b < 0 {
			continue
		}
		for _, w := range k.watch {
			if !w.known {
				if k.closeInv == 0 || w.ret < k.closeInv {
					simrt.Failf("C03.diff-unknown", "Diff reported an open consumer of this buffer as unknown")
					return false
				}
				continue
			}
			// read positions (committed + delta) the consumer can have had at some instant of [inv, ret]
			posLo, posHi := -1, -1
			note := func(p int) {
				if posLo < 0 || p < posLo {
					posLo = p
				}
				if p > posHi {
					posHi = p
				}
			}
			committed, delta := 0, 0
			var ops []*bufOp
			for _, op := range k.ops {
				if op.kind == "get" || op.kind == "commit" || op.kind == "rollback" {
					ops = append(ops, op)
				}
			}
			// state before the first operation
			if len(ops) == 0 || ops[0].ret > w.inv {
				note(0)
			}
			for j, op := range ops {
				switch op.kind {
				case "get":
					if op.ok {
						delta++
					}
				case "commit":
					if op.ok {
						committed += delta
						delta = 0
					}
				case "rollback":
					if op.ok {
						delta = 0
					}
				}
				// the state after op j is current from somewhere in [op.inv, op.ret] until the next op took effect
				if op.inv < w.ret && (j+1 == len(ops) || ops[j+1].ret > w.inv) {
					note(committed + delta)
				}
			}
			lo, hi := 0, 0
			for _, p := range r.puts {
				if p.ret < w.inv {
					lo += len(p.vals)
				}
				if p.inv < w.ret {
					hi += len(p.vals)
				}
			}
			if w.n < lo-(b+posHi) || w.n > hi-(b+posLo) {
				simrt.Failf("C03.diff-value", "consumer %d: a Diff() made by a second goroutine returned %d, but its read position was between %d and %d and between %d and %d values had been put (a concurrent Commit does not move the read position)",
					k.id, w.n, b+posLo, b+posHi, lo, hi)
				return false
			}
		}
	}
	// observations
	for oi, o := range r.obs {
		// Size / Slice never exceed what was put before they returned
		hi := 0
		for _, p := range r.puts {
			if p.inv < o.ret {
				hi += len(p.vals)
			}
		}
		if o.n > hi {
			simrt.Failf("C03.size-value", "observation %d reports %d values but at most %d had been put", oi, o.n, hi)
			return false
		}
		if o.kind != "slice" {
			continue
		}
		for _, v := range o.vals {
			if r.all[v].inv > o.ret {
				simrt.Failf("C03.slice-content", "Slice contains %v whose Put began after the Slice returned", v)
				return false
			}
		}
		if !r.orderOK {
			continue
		}
		// (e) the snapshot is a suffix: it contains the newest value put before it began
		newest := -1
		for _, p := range r.puts {
			if p.ret < o.inv {
				for _, v := range p.vals {
					if r.pos[v] > newest {
						newest = r.pos[v]
					}
				}
			}
		}
		head := -1
		if len(o.vals) > 0 {
			head = r.pos[o.vals[0]]
			if last := r.pos[o.vals[len(o.vals)-1]]; last < newest {
				simrt.Failf("C03.slice-suffix", "Slice ends at position %d but the value at position %d was put before the Slice began: not the retained suffix", last, newest)
				return false
			}
		} else {
			head = newest + 1 // everything up to newest was evicted
		}
		// (b) default cleaner: whatever is gone had been committed by every consumer that could still want it
		if r.cleaner == "default" {
			for i, k := range r.cons {
				t := tracks[i]
				if t.base < 0 || t.base >= head {
					continue
				}
				if k.newRet > o.inv {
					continue
				}
				if k.closeInv != 0 && k.closeInv < o.ret {
					continue
				}
				if up := t.base + t.committedUpper(o.ret); head > up {
					simrt.Failf("C03.evicted-uncommitted", "default cleaner: a Slice starts at position %d, so position %d was evicted, but open consumer %d (start %d) can have committed at most %d values by then",
						head, head-1, k.id, t.base, up-t.base)
					return false
				}
			}
		}
	}
	// (c) nothing is removed while no consumer exists (default cleaner)
	if r.cleaner == "default" {
		for _, a := range r.obs {
			for _, b := range r.obs {
				if a.kind != "slice" || b.kind != "slice" || a.ret >= b.inv || len(a.vals) == 0 {
					continue
				}
				overlap := false
				for _, k := range r.cons {
					end := int64(1 << 62)
					if k.closeRet != 0 {
						end = k.closeRet
					}
					if k.newInv < b.ret && end > a.inv {
						overlap = true
					}
				}
				if overlap {
					continue
				}
				simrt.Probe("slices_with_no_consumer")
				if len(b.vals) == 0 || b.vals[0] != a.vals[0] {
					simrt.Failf("C03.evicted-without-consumer", "no consumer existed between two Slices, yet the first starts at %v and the second does not", a.vals[0])
					return false
				}
			}
		}
	}
	return true
}
