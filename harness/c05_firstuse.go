package harness

import (
	"context"

	"bbsim/simrt"

	bigbuff "github.com/joeycumines/go-bigbuff"
)

// C05/first-use: the Get that parks and the Put that must wake it are among the racing first calls on
// a zero-value Buffer (the lazy initialiser is meant to cope with that, see C12/first-use): whichever
// initialiser wins, the condition variable the Get sleeps on is the one the Put broadcasts on.
//
// Not reused by C11: the unlocked first reads of the initialiser are the documented exception there.
func init() {
	Register(Harness{Prop: "C05", Name: "C05/first-use", Run: c05FirstUse})
	raceSkip["C05/first-use"] = true
}

func c05FirstUse() {
	b := new(bigbuff.Buffer)
	nOther := simrt.DrawRange(1, 3)
	kinds := make([]int, nOther)
	pauses := make([]pause, nOther+1)
	for i := range kinds {
		kinds[i] = simrt.Draw(3)
		pauses[i] = drawPause()
	}
	kinds[0] = 0 // at least one Put
	pauses[nOther] = drawPause()
	ctx, cancel := context.WithCancel(context.Background())
	defer cancel()
	var c bigbuff.Consumer
	got, gotErr, getDone := interface{}(nil), error(nil), false
	puts := 0
	go func() {
		pauses[nOther].do(1000)
		var err error
		c, err = b.NewConsumer()
		if err != nil {
			simrt.Failf("C05.setup", "NewConsumer on a fresh buffer failed: %v", err)
			return
		}
		got, gotErr = c.Get(ctx)
		getDone = true
	}()
	for i := 0; i < nOther; i++ {
		i := i
		go func() {
			pauses[i].do(1000)
			switch kinds[i] {
			case 0:
				if err := b.Put(context.Background(), 7); err != nil {
					simrt.Failf("C05.put", "Put on a fresh buffer failed: %v", err)
					return
				}
				puts++
			case 1:
				b.Size()
			case 2:
				b.Slice()
			}
		}()
	}
	simrt.Quiesce(-1)
	if simrt.Failed() {
		return
	}
	simrt.Probe("get_and_put_among_racing_first_calls")
	if c == nil {
		simrt.Failf("C05.first-use-blocked", "NewConsumer, one of the racing first calls on a zero-value Buffer, has not returned at quiescence")
		return
	}
	// a consumer created after the Put has nothing to read; one created before it must have been woken
	if !getDone {
		if d, ok := b.Diff(c); ok && d > 0 {
			simrt.Failf("C05.lost-wakeup", "racing first calls on a zero-value Buffer: %d Put(s) have returned, %d value(s) are waiting for this consumer (Diff), and its Get is still blocked at quiescence", puts, d)
			return
		}
		cancel()
		simrt.Quiesce(-1)
		if !getDone {
			simrt.Failf("C05.lost-wakeup", "racing first calls on a zero-value Buffer: the Get did not return after its context was cancelled")
			return
		}
	} else if gotErr != nil || got != 7 {
		simrt.Failf("C05.spurious-error", "racing first calls on a zero-value Buffer: Get returned (%v, %v), want (7, nil)", got, gotErr)
		return
	}
	_ = c.Rollback()
	_ = c.Close()
	_ = b.Close()
	simrt.Quiesce(-1)
}
