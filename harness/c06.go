package harness

import (
	"fmt"

	"bbsim/simrt"
)

// C06 — ChanPubSub delivery. Workload: c06_pubsub.go. Oracle: c06Oracle below, run after the
// shutdown phase (every call has returned, every receipt is on record).
//
// Check ids:
//
//	C06.count        receipts of v != the n returned by Send(v)
//	C06.duplicate    one subscription received v twice
//	C06.unknown      a subscription received a value nobody sent
//	C06.missed       a subscription with Subscribe ≺ Send(v) and no withdrawal begun before ret(Send v) did not receive v
//	C06.stale        a subscription received v although Send(v) ≺ Subscribe
//	C06.early-return Send(v) returned before a manual receiver of v had invoked Wait
//	C06.order        no single total order of the Sends is consistent with real time, sender program order
//	                 and every subscription stream being a contiguous run of it
//	C06.empty-send   Send returned non-zero although no subscription overlapped it
//	C06.panic        a call of a contract-abiding client panicked
//	deadlock         (framework) a call never returned, including "Send blocks with nobody subscribed"
func init() {
	Register(Harness{Prop: "C06", Name: "C06/delivery", Run: c06Delivery})
}

var c06Profile = psProfile{prop: "C06", maxSubs: 4, maxSess: 2, audNum: 3, audDen: 4}

func c06Delivery() {
	plan := drawPSPlan(c06Profile)
	r := newPSRun(c06Profile, plan)
	if !r.run() {
		return
	}
	// nobody is subscribed any more: Send must return 0 and must not block (a blocked main task is
	// reported as deadlock)
	func() {
		defer r.guard("main task (Send with no subscribers)")
		s := &psSend{sender: -1, val: 9002}
		r.sends = append(r.sends, s)
		s.inv = simrt.Stamp()
		s.n = r.x.Send(s.val)
		s.ret = simrt.Stamp()
		s.done = true
	}()
	if simrt.Failed() {
		return
	}
	r.historyProbes()
	c06Oracle(r)
}

func (s *psSub) received(v int) bool {
	for _, rc := range s.recs {
		if rc.val == v {
			return true
		}
	}
	return false
}

func (s *psSub) describe() string {
	wd := "never withdrawn"
	if s.wdInv != 0 {
		wd = fmt.Sprintf("withdrawal begun @%d", s.wdInv)
	}
	vals := []int{}
	for _, rc := range s.recs {
		vals = append(vals, rc.val)
	}
	return fmt.Sprintf("subscription %d (%s, subscribe [@%d,@%d], %s, received %v)", s.id, psKindName[s.kind], s.subInv, s.subRet, wd, vals)
}

func c06Oracle(r *psRun) {
	byVal := map[int]int{}
	for i, a := range r.sends {
		byVal[a.val] = i
	}
	receipts := make([]int, len(r.sends))
	for _, s := range r.subs {
		seen := map[int]bool{}
		for _, rc := range s.recs {
			i, ok := byVal[rc.val]
			if !ok {
				simrt.Failf("C06.unknown", "%s received %d, which no Send of this run carried", s.describe(), rc.val)
				return
			}
			if seen[rc.val] {
				simrt.Failf("C06.duplicate", "%s received message %d twice", s.describe(), rc.val)
				return
			}
			seen[rc.val] = true
			receipts[i]++
			a := r.sends[i]
			if a.done && a.ret < s.subInv {
				simrt.Failf("C06.stale", "%s received message %d, whose Send had already returned (@%d) when the subscription was requested", s.describe(), a.val, a.ret)
				return
			}
			if a.done && s.kind == psManual && rc.waitInv > a.ret {
				simrt.Failf("C06.early-return", "Send(%d) returned %d @%d before %s, which received it @%d, had invoked Wait (@%d): Send must not return before every receiver has acknowledged",
					a.val, a.n, a.ret, s.describe(), rc.at, rc.waitInv)
				return
			}
		}
	}
	for i, a := range r.sends {
		if !a.done {
			continue
		}
		if receipts[i] != a.n {
			simrt.Failf("C06.count", "Send(%d) [@%d,@%d] returned %d but the message was received %d times", a.val, a.inv, a.ret, a.n, receipts[i])
			return
		}
		overlap := false
		for _, s := range r.subs {
			if s.subInv == 0 {
				continue
			}
			if s.subRet != 0 && s.subRet < a.inv && (s.wdInv == 0 || s.wdInv > a.ret) && !s.received(a.val) {
				simrt.Failf("C06.missed", "Send(%d) [@%d,@%d] returned %d, but %s was established before the Send began, was not withdrawn before it returned, and did not receive the message",
					a.val, a.inv, a.ret, a.n, s.describe())
				return
			}
			if !(s.subInv > a.ret || (s.wdRet != 0 && s.wdRet < a.inv)) {
				overlap = true
			}
		}
		if !overlap && a.n != 0 {
			simrt.Failf("C06.empty-send", "Send(%d) [@%d,@%d] returned %d although no subscription existed at any time during the call", a.val, a.inv, a.ret, a.n)
			return
		}
	}
	c06Order(r, byVal)
}

// c06Order: is there one total order of all Sends that (1) extends real-time order between Sends
// (hence every sender's program order), and (2) has every subscription stream as a contiguous run?
// Necessary conditions only (so never a false alarm): "b directly follows a" in some stream forces b
// to be a's immediate successor in the order; that relation must be functional both ways; gluing
// the forced neighbours into blocks, real-time order must agree with the position inside a block and
// must be acyclic between blocks.
func c06Order(r *psRun, byVal map[int]int) {
	n := len(r.sends)
	succ := make([]int, n)
	pred := make([]int, n)
	who := make([]*psSub, n) // witness of succ[i]
	for i := range succ {
		succ[i], pred[i] = -1, -1
	}
	for _, s := range r.subs {
		for k := 1; k < len(s.recs); k++ {
			a, b := byVal[s.recs[k-1].val], byVal[s.recs[k].val]
			if succ[a] >= 0 && succ[a] != b {
				simrt.Failf("C06.order", "message %d is directly followed by %d for %s but by %d for %s: the streams are not contiguous runs of one order",
					r.sends[a].val, r.sends[b].val, s.describe(), r.sends[succ[a]].val, who[a].describe())
				return
			}
			if pred[b] >= 0 && pred[b] != a {
				simrt.Failf("C06.order", "message %d directly follows %d for %s but follows %d for another subscription (%s): the streams are not contiguous runs of one order",
					r.sends[b].val, r.sends[a].val, s.describe(), r.sends[pred[b]].val, who[pred[b]].describe())
				return
			}
			succ[a], pred[b], who[a] = b, a, s
		}
	}
	block := make([]int, n)
	pos := make([]int, n)
	for i := range block {
		block[i] = -1
	}
	nb := 0
	for i := 0; i < n; i++ {
		if pred[i] >= 0 {
			continue
		}
		for j, p := i, 0; j >= 0; j, p = succ[j], p+1 {
			block[j], pos[j] = nb, p
		}
		nb++
	}
	for i := 0; i < n; i++ {
		if block[i] < 0 {
			simrt.Failf("C06.order", "the 'directly follows' relation observed by the subscriptions is cyclic (message %d is in the cycle)", r.sends[i].val)
			return
		}
	}
	edges := make([][]int, nb)
	indeg := make([]int, nb)
	for i, a := range r.sends {
		for j, b := range r.sends {
			if i == j || !a.done || !b.done || !(a.ret < b.inv) {
				continue
			}
			// a really precedes b
			if block[i] == block[j] {
				if pos[i] > pos[j] {
					simrt.Failf("C06.order", "Send(%d) returned (@%d) before Send(%d) began (@%d), yet subscriptions observed %d before %d", a.val, a.ret, b.val, b.inv, b.val, a.val)
					return
				}
				continue
			}
			edges[block[i]] = append(edges[block[i]], block[j])
			indeg[block[j]]++
		}
	}
	var queue []int
	for b := 0; b < nb; b++ {
		if indeg[b] == 0 {
			queue = append(queue, b)
		}
	}
	done := 0
	for len(queue) > 0 {
		b := queue[0]
		queue = queue[1:]
		done++
		for _, c := range edges[b] {
			indeg[c]--
			if indeg[c] == 0 {
				queue = append(queue, c)
			}
		}
	}
	if done != nb {
		desc := ""
		for _, a := range r.sends {
			desc += fmt.Sprintf(" Send(%d)[@%d,@%d]=%d", a.val, a.inv, a.ret, a.n)
		}
		for _, s := range r.subs {
			if len(s.recs) > 1 {
				desc += "; " + s.describe()
			}
		}
		simrt.Failf("C06.order", "no total order of the Sends extends real-time order and keeps every subscription stream contiguous:%s", desc)
	}
}
