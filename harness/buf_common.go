package harness

import (
	"context"
	"fmt"
	"time"

	"bbsim/simrt"

	bigbuff "github.com/joeycumines/go-bigbuff"
)

// The Buffer workload shared by C01, C02 and C03: producers, consumers created at drawn moments,
// an observer, optionally an auditor consumer that reads and commits everything, a drawn cleaner.
// Everything that happens is recorded with invoke/return stamps; the oracles run in the main task
// after the workload has gone quiet.

type bufMode struct {
	prop       string
	forcedTrim bool // allow FixedBufferCleaner / adversarial cleaners
	ranges     bool // consumers also use Range / Buffer.Range
	shared     bool // some consumers are shared by several tasks (linearizability, C02)
}

type bufPut struct {
	prod, call int
	vals       []Val
	inv, ret   int64
}

type bufObs struct {
	kind     string // slice | size
	inv, ret int64
	vals     []Val
	n        int
}

// bufOp is one call on a consumer.
type bufOp struct {
	kind     string // get | commit | rollback | diff | close
	task     int
	inv, ret int64
	v        Val
	ok       bool // err == nil
	ctxErr   bool // the error is the cancellation of a context the harness cancelled
	n        int  // diff
	size     int  // Size() taken right after a diff by the same task
	known    bool // diff ok flag
}

type bufCons struct {
	id        int
	c         bigbuff.Consumer
	auditor   bool
	shared    bool
	newInv    int64
	newRet    int64
	ops       []*bufOp
	watch     []*bufOp // Diff calls by a second goroutine
	closeInv  int64    // 0 = never closed by the harness
	closeRet  int64
	stopped   bool // stopped after an eviction error
	users     int
	usersDone int
}

type cleanerCall struct {
	size    int
	offsets []int
	result  int
}

type bufRun struct {
	mode      bufMode
	b         *bigbuff.Buffer
	cool      time.Duration
	cleaner   string // default | fixed | adversarial
	max       int
	target    int
	puts      []*bufPut
	obs       []*bufObs
	cons      []*bufCons
	cleaner_  []cleanerCall
	all       map[Val]*bufPut
	total     int
	stop      context.Context
	stopFn    context.CancelFunc
	stopInv   int64
	forced    int
	unit      time.Duration
	tasksLeft int
	order     []Val // the total put order, when it could be established
	orderOK   bool
	audOK     bool // the auditor read every value
	pos       map[Val]int
	single    bool  // one producer only
	quiesced  int64 // stamp of the first quiescent instant of finish() (0 before)
	huge      bool  // one producer puts a batch of a few thousand values (forced-trim modes without an auditor)
}

func asVal(x interface{}) (Val, bool) {
	v, ok := x.(Val)
	return v, ok
}

func refDefaultCleaner(size int, offsets []int) int {
	lowest, active := size, false
	for _, o := range offsets {
		if o == 0 {
			return 0
		}
		if o < 0 {
			continue
		}
		active = true
		if o < lowest {
			lowest = o
		}
	}
	if !active {
		return 0
	}
	return lowest
}

// newBufRun draws the configuration and creates the buffer.
func newBufRun(mode bufMode) *bufRun {
	r := &bufRun{mode: mode, all: map[Val]*bufPut{}, pos: map[Val]int{}}
	r.cool = drawCooldown()
	r.huge = mode.forcedTrim && simrt.Chance(1, 15)
	r.unit = time.Microsecond
	if r.cool >= time.Millisecond {
		r.unit = r.cool / 8
	}
	r.cleaner = "default"
	if mode.forcedTrim {
		switch simrt.Draw(4) {
		case 1, 2:
			r.cleaner = "fixed"
			r.max = simrt.DrawRange(1, 6)
			r.target = simrt.DrawRange(-2, r.max) // a negative target asks for more than everything
		case 3:
			r.cleaner = "adversarial"
		}
	}
	var inner bigbuff.Cleaner
	switch r.cleaner {
	case "default":
		inner = bigbuff.DefaultCleaner
	case "fixed":
		inner = bigbuff.FixedBufferCleaner(r.max, r.target, func(n bigbuff.FixedBufferCleanerNotification) {
			r.forced++
			simrt.Fault("forced_trim")
		})
	case "adversarial":
		// evicts an arbitrary amount now and then, whatever the consumers did (also out-of-range values)
		plan := make([]int, 24)
		for i := range plan {
			if simrt.Chance(1, 3) {
				plan[i] = simrt.DrawRange(-1, 4)
			}
		}
		k := 0
		inner = func(size int, offsets []int) int {
			k++
			d := plan[k%len(plan)]
			if d != 0 {
				if d > 0 && size > 0 {
					r.forced++
					simrt.Fault("forced_trim")
				}
				return d
			}
			return bigbuff.DefaultCleaner(size, offsets)
		}
	}
	wrapped := func(size int, offsets []int) int {
		res := inner(size, offsets)
		if len(r.cleaner_) < 500 {
			r.cleaner_ = append(r.cleaner_, cleanerCall{size, append([]int(nil), offsets...), res})
		}
		return res
	}
	r.b = newBuffer(wrapped, r.cool)
	r.stop, r.stopFn = context.WithCancel(bg)
	return r
}

// producers draws and starts 1..maxProd producers.
func (r *bufRun) producers(maxProd int) {
	nProd := simrt.DrawRange(1, maxProd+simrt.Scale()-1)
	r.single = nProd == 1
	type plan struct {
		batches []int
		pauses  []pause
		reuse   bool // the producer reuses one argument slice for all its calls and scribbles over it after each Put
	}
	plans := make([]plan, nProd)
	hugeAt := -1
	hugeAll := false // every batch of that producer is huge: a backlog of 10-20 thousand values, a backing array to match
	if r.huge {
		hugeAt = simrt.Draw(nProd)
		hugeAll = simrt.Chance(1, 2)
	}
	midAt := -1
	if !r.huge && simrt.Chance(1, 25) {
		midAt = simrt.Draw(nProd)
	}
	for p := range plans {
		plans[p].reuse = simrt.Chance(1, 4)
		for k := simrt.DrawRange(1, 4*simrt.Scale()); k > 0; k-- {
			n := simrt.DrawRange(0, 3)
			if simrt.Chance(1, 10) {
				n = simrt.DrawRange(4, 40) // an occasional large batch
			}
			if midAt == p && k == 1 {
				// a few hundred values at once: big shifts when they are consumed within one cooldown
				n = simrt.DrawRange(260, 600)
				simrt.Probe("mid_batch")
			}
			if p == hugeAt && (k == 1 || hugeAll) {
				// one very large batch: sizes around internal thresholds nobody thought of testing
				n = []int{1030, 1300, 4200, 5200}[simrt.Draw(4)] + simrt.Draw(50)
				simrt.Probe("huge_batch")
			}
			plans[p].batches = append(plans[p].batches, n)
			plans[p].pauses = append(plans[p].pauses, drawPause())
			r.total += n
		}
	}
	for p := range plans {
		p := p
		pl := plans[p]
		r.tasksLeft++
		go func() {
			defer func() { r.tasksLeft-- }()
			seq := 0
			var scratch []interface{}
			for c, n := range pl.batches {
				pl.pauses[c].do(r.unit)
				put := &bufPut{prod: p, call: c}
				vals := make([]interface{}, n)
				if pl.reuse {
					if cap(scratch) < n {
						scratch = make([]interface{}, n)
					}
					vals = scratch[:n]
					simrt.Probe("producer_reuses_argument_slice")
				}
				if n > 16 {
					simrt.Probe("large_batch")
				}
				for i := 0; i < n; i++ {
					v := Val{P: p, C: c, I: i, Seq: seq}
					seq++
					put.vals = append(put.vals, v)
					r.all[v] = put
					vals[i] = v
				}
				r.puts = append(r.puts, put)
				put.inv = simrt.Stamp()
				err := r.b.Put(bg, vals...)
				put.ret = simrt.Stamp()
				simrt.Logf("put %v inv=%d ret=%d", put.vals, put.inv, put.ret)
				if err != nil {
					simrt.Failf(r.mode.prop+".put-failed", "Put on an open buffer failed: %v", err)
					return
				}
				if pl.reuse {
					// the caller owns its argument slice again once Put has returned
					for i := range vals {
						vals[i] = Val{P: -1, C: c, I: i}
					}
				}
			}
		}()
	}
}

// observer starts a task that takes Slice / Size snapshots at drawn moments.
func (r *bufRun) observer() {
	n := simrt.DrawRange(0, 6*simrt.Scale())
	if n == 0 {
		return
	}
	pauses := make([]pause, n)
	kinds := make([]int, n)
	for i := range pauses {
		pauses[i] = drawPause()
		kinds[i] = simrt.Draw(3)
	}
	r.tasksLeft++
	go func() {
		defer func() { r.tasksLeft-- }()
		for i := 0; i < n; i++ {
			pauses[i].do(r.unit)
			r.snapshot(kinds[i] != 0)
		}
	}()
}

func (r *bufRun) snapshot(slice bool) *bufObs {
	o := &bufObs{kind: "size"}
	if slice {
		o.kind = "slice"
	}
	o.inv = simrt.Stamp()
	if slice {
		raw := r.b.Slice()
		o.ret = simrt.Stamp()
		for _, x := range raw {
			v, ok := asVal(x)
			if !ok {
				simrt.Failf(r.mode.prop+".invented-value", "Slice returned %#v, which no producer put", x)
				return o
			}
			o.vals = append(o.vals, v)
		}
		o.n = len(raw)
		for i := range raw {
			raw[i] = Val{P: -2, I: i} // the snapshot is the caller's own copy: writing to it must not show up anywhere
		}
	} else {
		o.n = r.b.Size()
		o.ret = simrt.Stamp()
	}
	r.obs = append(r.obs, o)
	return o
}

func (r *bufRun) newConsumer(auditor, shared bool) *bufCons {
	k := &bufCons{id: len(r.cons), auditor: auditor, shared: shared}
	r.cons = append(r.cons, k)
	k.newInv = simrt.Stamp()
	c, err := r.b.NewConsumer()
	k.newRet = simrt.Stamp()
	if err != nil {
		simrt.Failf(r.mode.prop+".setup", "NewConsumer on an open buffer failed: %v", err)
		return nil
	}
	k.c = c
	return k
}

// get performs one Get and records it. cancelAfter >= 0 arms a canceller for this Get.
func (r *bufRun) get(k *bufCons, cancelAfter int) *bufOp {
	op := &bufOp{kind: "get", task: simrt.CurrentID()}
	ctx := r.stop
	cancelled := false
	var cancel context.CancelFunc
	if cancelAfter >= 0 {
		ctx, cancel = context.WithCancel(r.stop)
		d := cancelAfter
		go func() {
			time.Sleep(time.Duration(d) * r.unit)
			cancelled = true
			simrt.Fault("ctx_cancel")
			cancel()
		}()
	}
	k.ops = append(k.ops, op)
	op.inv = simrt.Stamp()
	x, err := k.c.Get(ctx)
	op.ret = simrt.Stamp()
	if cancel != nil {
		defer cancel()
	}
	if err != nil {
		op.ok = false
		op.ctxErr = (cancelled || r.stopInv != 0) && (err == context.Canceled)
		if op.ctxErr && !cancelled && r.quiesced != 0 && op.inv < r.quiesced && !k.shared {
			// this Get was still blocked when everything had gone quiet and was only released by the
			// harness's stop: legitimate while it waited for a value that might yet be put, not when its
			// next value had already been evicted (nothing else has touched this consumer since)
			if d, known := r.b.Diff(k.c); known && d > 0 && d <= r.b.Size() {
				simrt.Failf(r.mode.prop+".get-blocked-with-values-available", "consumer %d: its Get was still blocked when everything had gone quiet, although %d value(s) it has not read are in the buffer (Size()=%d): the wake-up of a Put was lost", k.id, d, r.b.Size())
			} else if known && d > r.b.Size() {
				simrt.Failf(r.mode.prop+".lagging-get-blocked", "consumer %d: its Get was still blocked when everything had gone quiet, although its next value had been evicted (Diff()=%d > Size()=%d): a consumer that has fallen behind gets an error from every Get, it does not wait", k.id, d, r.b.Size())
			}
		}
		return op
	}
	v, ok := asVal(x)
	if !ok {
		simrt.Failf(r.mode.prop+".invented-value", "consumer %d: Get returned %#v, which no producer put", k.id, x)
		return op
	}
	if _, known := r.all[v]; !known {
		simrt.Failf(r.mode.prop+".invented-value", "consumer %d: Get returned %+v, which no producer has put (yet)", k.id, v)
		return op
	}
	op.ok = true
	op.v = v
	return op
}

func (r *bufRun) commit(k *bufCons) *bufOp {
	op := &bufOp{kind: "commit", task: simrt.CurrentID()}
	k.ops = append(k.ops, op)
	op.inv = simrt.Stamp()
	err := k.c.Commit()
	op.ret = simrt.Stamp()
	op.ok = err == nil
	return op
}

func (r *bufRun) rollback(k *bufCons) *bufOp {
	op := &bufOp{kind: "rollback", task: simrt.CurrentID()}
	k.ops = append(k.ops, op)
	op.inv = simrt.Stamp()
	err := k.c.Rollback()
	op.ret = simrt.Stamp()
	op.ok = err == nil
	return op
}

func (r *bufRun) diff(k *bufCons) *bufOp {
	op := &bufOp{kind: "diff", task: simrt.CurrentID()}
	k.ops = append(k.ops, op)
	op.inv = simrt.Stamp()
	op.n, op.known = r.b.Diff(k.c)
	op.size = r.b.Size()
	op.ret = simrt.Stamp()
	op.ok = true
	return op
}

func (r *bufRun) closeCons(k *bufCons) {
	k.closeInv = simrt.Stamp()
	simrt.Fault("close_handle")
	if err := k.c.Close(); err != nil {
		simrt.Failf(r.mode.prop+".close", "first Close of consumer %d failed: %v", k.id, err)
	}
	k.closeRet = simrt.Stamp()
}

// startAuditor starts the task of the auditor consumer (created before anything is put): it reads and
// commits every value. Its stream is the total put order.
func (r *bufRun) startAuditor(k *bufCons) {
	every := simrt.DrawRange(1, 3)
	r.tasksLeft++
	go func() {
		defer func() { r.tasksLeft-- }()
		pending := 0
		for n := 0; n < r.total; n++ {
			op := r.get(k, -1)
			if simrt.Failed() {
				return
			}
			if !op.ok {
				k.stopped = true
				break
			}
			pending++
			if pending >= every || n == r.total-1 {
				if !r.commit(k).ok && r.stopInv == 0 {
					simrt.Failf(r.mode.prop+".commit", "auditor: Commit with %d pending reads failed", pending)
					return
				}
				pending = 0
			}
		}
		if pending > 0 {
			r.rollback(k)
		}
	}()
}

// finish lets the workload go quiet, releases blocked Gets, waits for every harness task, and
// establishes the total order. It returns false if the run already failed.
func (r *bufRun) finish() bool {
	simrt.Quiesce(-1)
	if simrt.Failed() {
		return false
	}
	// (a Get still blocked now, although its next value has been evicted, is flagged by get() itself when the
	// stop below releases it: see quiesced)
	r.quiesced = simrt.Stamp()
	r.stopInv = simrt.Stamp()
	r.stopFn()
	simrt.Quiesce(-1)
	if simrt.Failed() {
		return false
	}
	if r.tasksLeft != 0 {
		simrt.Failf(r.mode.prop+".stuck", "%d harness tasks did not finish after every context was cancelled", r.tasksLeft)
		return false
	}
	// total order: the auditor's stream if it is complete, else the single producer's program order
	for _, k := range r.cons {
		if !k.auditor {
			continue
		}
		var st []Val
		seen := map[Val]bool{}
		for _, op := range k.ops {
			if op.kind == "get" && op.ok && !seen[op.v] {
				seen[op.v] = true
				st = append(st, op.v)
			}
		}
		if len(st) == r.total {
			r.order, r.orderOK, r.audOK = st, true, true
		}
	}
	if !r.orderOK && r.single {
		for _, p := range r.puts {
			r.order = append(r.order, p.vals...)
		}
		r.orderOK = true
	}
	for i, v := range r.order {
		r.pos[v] = i
	}
	return true
}

func (r *bufRun) shutdown() {
	_ = r.b.Close()
	simrt.Quiesce(-1)
}

func (v Val) String() string { return fmt.Sprintf("p%dc%di%d", v.P, v.C, v.I) }
