package harness

import (
	"context"
	"time"

	"bbsim/simrt"

	bigbuff "github.com/joeycumines/go-bigbuff"
)

func init() {
	Register(Harness{Prop: "C20", Name: "C20/tick-lag", Run: c20TickLag})
}

// c20TickLag: LinearAttempt under a clock fault. A time.Ticker value is the time the tick was due plus
// the delay the runtime suffered between noticing the expiry and stamping the value; when a thread is
// descheduled in that window, the value is later than the next tick's, which is stamped without the
// delay (simrt.SetTickLag: about a third of the ticks are 0.5-4 periods late in this harness). The
// statement's clauses that do not speak about promptness must hold regardless: non-decreasing
// timestamps, at most count values, never more than one buffered, closed in the end, producer gone.
func c20TickLag() {
	simrt.SetTickLag(true)
	if simrt.Chance(1, 2) {
		simrt.SetTickNoSkip(true) // several stale ticks in a row after a delayed one
	}
	count := simrt.DrawRange(2, 8)
	rate := []time.Duration{time.Microsecond, time.Millisecond, 10 * time.Millisecond}[simrt.Draw(3)]
	cancelAfter := -1
	if simrt.Chance(1, 2) {
		cancelAfter = simrt.DrawRange(1, count)
	}
	slow := simrt.Chance(1, 3)
	n0 := len(simrt.Tasks())
	ctx, cancel := context.WithCancel(context.Background())
	defer cancel()
	ch := bigbuff.LinearAttempt(ctx, rate, count)
	var got []time.Time
	closed := false
	simrt.OnStep(func() {
		if (cap(ch) != 1 || len(ch) > 1) && !simrt.Failed() {
			simrt.Failf("C20.buffer", "the returned channel has cap %d and %d values buffered", cap(ch), len(ch))
		}
	})
	go func() {
		for v := range ch {
			got = append(got, v)
			if n := len(got); n > count {
				simrt.Failf("C20.too-many-values", "received value number %d from LinearAttempt(count=%d)", n, count)
				return
			} else if n > 1 && v.Before(got[n-2]) {
				simrt.Failf("C20.timestamps-decrease", "value %d carries %v, earlier than the previous value's %v (ticker values delayed by a stalled thread: rate %v)", n, v.Sub(simrt.Epoch), got[n-2].Sub(simrt.Epoch), rate)
				return
			}
			if len(got) == cancelAfter {
				simrt.Fault("ctx_cancel")
				cancel()
			}
			if slow {
				time.Sleep(rate * time.Duration(simrt.DrawRange(1, 3)))
			}
		}
		closed = true
	}()
	simrt.Quiesce(-1) // all timers drained: every tick, however late, has been delivered
	if simrt.Failed() {
		return
	}
	if !closed {
		simrt.Failf("C20.not-closed", "all timers drained, %d of %d values received, cancelled=%v: the channel was not closed", len(got), count, ctx.Err() != nil)
		return
	}
	if alive, desc := c20LibAlive(n0); alive {
		simrt.Failf("C20.producer-alive", "the channel is closed and all timers are drained, but the producing goroutine is still there: %s", desc)
		return
	}
	if cancelAfter < 0 && len(got) != count {
		simrt.Failf("C20.too-few-values", "never cancelled, receiver keeps receiving: %d of %d values arrived before the channel was closed", len(got), count)
	}
}
