package harness

import (
	"context"
	"fmt"
	"sort"
	"strings"
	"sync"
	"time"

	"bbsim/oracle"
	"bbsim/simrt"

	bigbuff "github.com/joeycumines/go-bigbuff"
)

// C13: Channel consumer over a source channel: lossless, ordered, linearizable.
//
// The feeder sends the values 1,2,3,...,n (never 0, so that the zero value of a closed `chan int`
// and the nil of a closed `chan any` are both recognisable). Value v is the v-th value of the source
// stream, so the sequential model only needs counters:
//
//	committed  number of values dropped by Commit            buffer == [committed+1 .. next]
//	next       number of values taken from the source
//	rollback   trailing buffer entries to be re-delivered
//	closed     the Channel's context is cancelled (Close or parent cancel)
//	closeUsed  the one effective Close has run (Done is closed)
//	parent     the parent context was cancelled (the library's own goroutine will Close)
func init() {
	Register(Harness{Prop: "C13", Name: "C13/channel", Run: func() { c13Channel(false) }, Post: c13Post, Weight: 3})
	Register(Harness{Prop: "C13", Name: "C13/sequence", Run: func() { c13Channel(true) }, Post: c13Post, Weight: 1})
}

const (
	c13Get = iota
	c13Commit
	c13Rollback
	c13Buffer
	c13Close
	c13DoneObs
	c13ParentCancel
	c13Final
)

var c13Names = []string{"Get", "Commit", "Rollback", "Buffer", "Close", "Done?", "cancel(parent)", "final"}

type c13In struct{ Kind int }

type c13Out struct {
	OK  bool  // Get: a value was returned; Commit/Rollback/Close: nil error; Done?: closed
	V   int   // Get: the value (-1: not one of the feeder's)
	Buf []int // Buffer, final: the buffer
	// final only: what was drained from the source after the Channel was done, and how many values
	// the feeder got rid of in total
	Drained []int
	Sent    int
}

type c13State struct {
	Committed, Next, Rollback int
	Closed, CloseUsed, Parent bool
}

type c13Hist struct {
	Ops []oracle.Op
}

func c13Seq(from, to int) []int { // from+1 .. to
	var out []int
	for v := from + 1; v <= to; v++ {
		out = append(out, v)
	}
	return out
}

func c13EqInts(a, b []int) bool {
	if len(a) != len(b) {
		return false
	}
	for i := range a {
		if a[i] != b[i] {
			return false
		}
	}
	return true
}

// c13Step is the sequential specification.
func c13Step(state, in, out any) (bool, any) {
	s := state.(c13State)
	o := out.(c13Out)
	pending := s.Next - s.Committed - s.Rollback
	switch in.(c13In).Kind {
	case c13Get:
		if !o.OK {
			return true, s // a failed Get changes nothing (its justification is checked with stamps)
		}
		if s.Closed {
			return false, s
		}
		if s.Rollback > 0 {
			if o.V != s.Next-s.Rollback+1 {
				return false, s
			}
			s.Rollback--
			return true, s
		}
		if o.V != s.Next+1 {
			return false, s
		}
		s.Next++
		return true, s
	case c13Commit:
		if o.OK {
			if s.Closed || pending == 0 {
				return false, s
			}
			s.Committed += pending
			return true, s
		}
		return s.Closed || pending == 0, s
	case c13Rollback:
		if o.OK {
			if pending == 0 {
				return false, s
			}
			s.Rollback += pending
			return true, s
		}
		return pending == 0, s
	case c13Buffer:
		return c13EqInts(o.Buf, c13Seq(s.Committed, s.Next)), s
	case c13Close:
		if o.OK {
			if s.CloseUsed {
				return false, s
			}
			s.CloseUsed, s.Closed = true, true
			return true, s
		}
		if s.CloseUsed {
			return true, s
		}
		if s.Parent { // the library's cleanup goroutine closed it first
			s.CloseUsed = true
			return true, s
		}
		return false, s
	case c13DoneObs:
		if !o.OK {
			return !s.CloseUsed, s
		}
		if s.CloseUsed {
			return true, s
		}
		if s.Parent {
			s.CloseUsed = true
			return true, s
		}
		return false, s
	case c13ParentCancel:
		s.Closed, s.Parent = true, true
		return true, s
	case c13Final:
		if !c13EqInts(o.Buf, c13Seq(s.Committed, s.Next)) {
			return false, s
		}
		return c13EqInts(o.Drained, c13Seq(s.Next, o.Sent)), s
	}
	return false, s
}

func c13Desc(op oracle.Op) string {
	o := op.Out.(c13Out)
	k := op.In.(c13In).Kind
	res := ""
	switch k {
	case c13Get:
		if o.OK {
			res = fmt.Sprintf("%d", o.V)
		} else {
			res = "error"
		}
	case c13Commit, c13Rollback, c13Close:
		if o.OK {
			res = "nil"
		} else {
			res = "error"
		}
	case c13Buffer:
		res = fmt.Sprint(o.Buf)
	case c13DoneObs:
		if o.OK {
			res = "closed"
		} else {
			res = "open"
		}
	case c13ParentCancel:
		res = "-"
	case c13Final:
		res = fmt.Sprintf("buffer=%v drained=%v sent=%d", o.Buf, o.Drained, o.Sent)
	}
	return fmt.Sprintf("c%d %s -> %s [%d,%d]", op.Client, c13Names[k], res, op.Call, op.Return)
}

// c13Post runs outside the simulation.
func c13Post(data any) (string, string, bool) {
	h, ok := data.(*c13Hist)
	if !ok || h == nil {
		return "", "", false
	}
	m := oracle.Model{
		Init:  func() any { return c13State{} },
		Step:  c13Step,
		Equal: func(a, b any) bool { return a.(c13State) == b.(c13State) },
	}
	good, timedOut := oracle.Linearizable(m, h.Ops, 5*time.Second)
	if timedOut {
		return "", "", true
	}
	if good {
		return "", "", false
	}
	ops := append([]oracle.Op(nil), h.Ops...)
	sort.Slice(ops, func(i, j int) bool { return ops[i].Call < ops[j].Call })
	var b strings.Builder
	b.WriteString("no sequential order of these calls, consistent with real time, is explained by the Channel model (buffer, rollback, next source value, closed):\n")
	for _, op := range ops {
		b.WriteString("  " + c13Desc(op) + "\n")
	}
	return "C13.linearizability", b.String(), false
}

type c13OpPlan struct {
	kind    int
	p       pause
	ctxKind int // Get: 0 nil, 1 Background, 2 cancelled by a timer task, 3 already cancelled
	delay   int // Get, ctxKind 2: units until the cancel
}

// c13Channel draws and runs one program. seq selects the single-client shape: one task, a long
// sequence of Get/Commit/Rollback/Buffer over a source that mostly has data, no Close before the end
// (rollback, partial re-read, rollback again, commit, ...).
func c13Channel(seq bool) {
	// ---------------- program ----------------
	n := simrt.DrawRange(0, 10)
	srcCap := []int{0, 0, 1, 2, 4, 8}[simrt.Draw(6)]
	deep := seq && simrt.Chance(1, 5) // a scripted deep replay: many reads, rollback, a long partial re-read, commit
	if seq {
		n = simrt.DrawRange(3, 12)
		srcCap = []int{0, 2, 12, 12}[simrt.Draw(4)]
	}
	deepA, deepB := 0, 0
	if deep && simrt.Chance(1, 3) {
		// the long version: more than 64 values re-read and committed, a handful left rolled back
		deepA = simrt.DrawRange(67, 80)
		deepB = simrt.DrawRange(deepA-6, deepA-1)
		n = deepA + (deepA - deepB + 2) + 2 + simrt.Draw(3)
		srcCap = 128
		simrt.Probe("deep_replay_script_long")
	} else if deep {
		deepA = simrt.DrawRange(9, 13)
		deepB = simrt.DrawRange(8, deepA-1)
		n = deepA + (deepA - deepB + 2) + 2 + simrt.Draw(3) // never fewer values than the script reads: a Get with a live context would poll for ever
		srcCap = 32
	}
	srcAny := simrt.Chance(1, 2)
	srcNamed := !srcAny && simrt.Chance(1, 3) // element type: a named integer type (its values keep that type)
	closeSrc := simrt.Chance(1, 2)
	rate := []time.Duration{time.Microsecond, 50 * time.Microsecond, time.Millisecond, 0}[simrt.Draw(4)]
	unit := rate
	if unit == 0 {
		unit = bigbuff.DefaultChannelPollRate
	}
	feedPauses := make([]pause, n+2)
	for i := range feedPauses {
		if !seq && simrt.Chance(1, 2) {
			feedPauses[i] = drawPause()
		}
	}
	preload := 0 // values already in a buffered source before the Channel exists
	if srcCap > 0 && simrt.Chance(1, 2) {
		preload = simrt.DrawRange(0, srcCap)
	}
	parentKind := simrt.Draw(4) // 0 nil, 1 Background, 2 cancellable, 3 ends with DeadlineExceeded
	closer := simrt.Draw(4)     // 0,1 none; 2 a task calls Close; 3 a task cancels the parent
	if closer == 3 && parentKind < 2 {
		closer = 2
	}
	closerAt := simrt.DrawRange(0, 20)
	closerStall := simrt.DrawRange(0, 40)
	nClients := simrt.DrawRange(1, 3+simrt.Scale()-1)
	minOps, maxOps := 2, 12
	if seq {
		closer, nClients, minOps, maxOps = 0, 1, 10, 30
	}
	progs := make([][]c13OpPlan, nClients)
	if deep {
		simrt.Probe("deep_replay_script")
		a, b := deepA, deepB
		var pr []c13OpPlan
		add := func(kind, times int) {
			for ; times > 0; times-- {
				pr = append(pr, c13OpPlan{kind: kind, ctxKind: 1})
			}
		}
		add(c13Get, a)
		add(c13Rollback, 1)
		add(c13Get, b)
		add(c13Commit, 1)
		add(c13Buffer, 1)
		add(c13Get, a-b+simrt.Draw(3))
		add(c13Rollback, simrt.Draw(2))
		add(c13Get, simrt.Draw(3))
		add(c13Commit, 1)
		add(c13Buffer, 1)
		progs[0] = pr
	}
	for c := range progs {
		if deep {
			break
		}
		for k := simrt.DrawRange(minOps, maxOps); k > 0; k-- {
			op := c13OpPlan{}
			if !seq || simrt.Chance(1, 4) {
				op.p = drawPause()
			}
			x := simrt.Draw(20)
			if seq && x >= 18 {
				x = simrt.Draw(18)
			}
			switch {
			case x < 9:
				op.kind = c13Get
				switch y := simrt.Draw(10); {
				case y < 2 && closer >= 2:
					op.ctxKind = y // nil / Background: released by data, Close or the parent's cancel
				case y == 2:
					op.ctxKind = 3
				default:
					op.ctxKind = 2
					op.delay = simrt.DrawRange(0, 6)
					if simrt.Chance(1, 6) {
						op.delay = 25
					}
				}
			case x < 12:
				op.kind = c13Commit
			case x < 16:
				op.kind = c13Rollback
			case x < 18:
				op.kind = c13Buffer
			case x < 19:
				op.kind = c13DoneObs
			default:
				op.kind = c13Close
				if !simrt.Chance(1, 3) {
					op.kind = c13Get
					op.ctxKind, op.delay = 2, simrt.DrawRange(0, 3)
				}
			}
			progs[c] = append(progs[c], op)
		}
	}
	mainCloseAnyway := simrt.Chance(1, 2)

	// ---------------- set-up ----------------
	var (
		srcInt  chan int
		srcNam  chan c13N
		srcAnyC chan any
		source  any
	)
	if srcAny {
		srcAnyC = make(chan any, srcCap)
		source = srcAnyC
		if simrt.Chance(1, 2) {
			source = (<-chan any)(srcAnyC) // a receive-only view is all the Channel needs
			simrt.Probe("receive_only_source_of_any")
		}
	} else if srcNamed {
		srcNam = make(chan c13N, srcCap)
		source = srcNam
		simrt.Probe("source_of_named_element_type")
	} else {
		srcInt = make(chan int, srcCap)
		source = (<-chan int)(srcInt) // receive-only view: all the Channel needs
	}
	srcLen := func() int {
		if srcAny {
			return len(srcAnyC)
		}
		if srcNamed {
			return len(srcNam)
		}
		return len(srcInt)
	}
	var parent context.Context
	parentCancel := context.CancelFunc(func() {})
	switch parentKind {
	case 1:
		parent = context.Background()
	case 2:
		p, c := context.WithCancel(context.Background())
		parent, parentCancel = p, c
	case 3:
		// a parent whose end is reported as DeadlineExceeded (as a deadline context's is): the Channel's
		// own context then carries that error for good, also after an explicit Close
		p := &c13DeadlineParent{done: make(chan struct{})}
		parent, parentCancel = p, p.expire
		simrt.Probe("parent_ends_with_deadline_exceeded")
	}
	defer parentCancel()
	ch, err := bigbuff.NewChannel(parent, rate, source)
	if err != nil || ch == nil {
		simrt.Failf("C13.setup", "NewChannel: %v", err)
		return
	}
	hist := &c13Hist{}
	record := func(client, kind int, inv, ret int64, out c13Out) {
		hist.Ops = append(hist.Ops, oracle.Op{Client: client, In: c13In{kind}, Out: out, Call: inv, Return: ret})
	}
	var (
		sendBegun      = 0 // highest value whose send has begun
		sent           = 0 // highest value whose send has completed
		srcClosed      = false
		closeInvoked   = false // a harness Close has been invoked
		parentInvoked  = false
		getsInFlight   = 0
		seen           = make([]bool, n+1) // values some Get has returned
		commits        = 0
		draining       = false
		doneSeen       = false // the step hook saw Done() closed
		lastLen        = 0
		takenAfterDone = false
		rolledBack     = false // a Rollback has succeeded
		rollbackBegun  = false // a Rollback has been invoked
	)
	toInt := func(v any) int {
		if srcNamed {
			// what was sent is a c13N: it comes back as a c13N, not as its underlying kind
			if i, ok := v.(c13N); ok && i >= 1 && int(i) <= n {
				return int(i)
			}
			return -1
		}
		if i, ok := v.(int); ok && i >= 1 && i <= n {
			return i
		}
		return -1
	}
	doneCh := ch.Done()
	// exact "Done observed closed, then something left the source" detector for buffered sources
	simrt.OnStep(func() {
		if draining || takenAfterDone {
			return
		}
		l := srcLen()
		if !doneSeen {
			select {
			case <-doneCh:
				doneSeen = true
			default:
			}
		} else if l < lastLen {
			takenAfterDone = true
		}
		lastLen = l
	})

	// ---------------- feeder ----------------
	stopFeed := make(chan struct{})
	var fwg, cwg, twg sync.WaitGroup
	send := func(v int) bool {
		ok := false
		if srcAny {
			select {
			case srcAnyC <- v:
				ok = true
			case <-stopFeed:
			}
		} else if srcNamed {
			select {
			case srcNam <- c13N(v):
				ok = true
			case <-stopFeed:
			}
		} else {
			select {
			case srcInt <- v:
				ok = true
			case <-stopFeed:
			}
		}
		return ok
	}
	for v := 1; v <= preload && v <= n; v++ {
		sendBegun = v
		if srcAny {
			srcAnyC <- v
		} else if srcNamed {
			srcNam <- c13N(v)
		} else {
			srcInt <- v
		}
		sent = v
	}
	fwg.Add(1)
	go func() {
		defer fwg.Done()
		for v := sent + 1; v <= n; v++ {
			feedPauses[v].do(unit)
			sendBegun = v
			if !send(v) {
				break
			}
			sent = v
		}
		if closeSrc {
			feedPauses[n+1].do(unit)
			simrt.Fault("source_close")
			srcClosed = true
			if srcAny {
				close(srcAnyC)
			} else if srcNamed {
				close(srcNam)
			} else {
				close(srcInt)
			}
		}
	}()

	// ---------------- the calls ----------------
	doClose := func(client int) {
		if getsInFlight > 0 {
			simrt.Probe("close_during_get")
		}
		closeInvoked = true
		simrt.Fault("close_handle")
		inv := simrt.Stamp()
		err := ch.Close()
		record(client, c13Close, inv, simrt.Stamp(), c13Out{OK: err == nil})
	}
	doBuffer := func(client int, kind int) []int {
		inv := simrt.Stamp()
		raw := ch.Buffer()
		ret := simrt.Stamp()
		buf := make([]int, len(raw))
		for i, v := range raw {
			buf[i] = toInt(v)
			if buf[i] < 0 {
				simrt.Failf("C13.alien-value", "Buffer() holds %v (%T), which the feeder never sent (source closed: %v)", v, v, srcClosed)
			}
		}
		if kind == c13Buffer {
			record(client, c13Buffer, inv, ret, c13Out{Buf: buf})
		}
		return buf
	}
	doGet := func(client int, op c13OpPlan) {
		var ctx context.Context
		cancelInvoked := false
		returned := false
		switch op.ctxKind {
		case 1:
			ctx = context.Background()
		case 2, 3:
			cctx, cancel := context.WithCancel(context.Background())
			ctx = cctx
			if op.ctxKind == 3 {
				cancelInvoked = true
				cancel()
			} else {
				twg.Add(1)
				go func() {
					defer twg.Done()
					time.Sleep(time.Duration(op.delay) * unit)
					cancelInvoked = true
					if !returned {
						simrt.Fault("ctx_cancel")
						simrt.Probe("cancel_during_get")
					}
					cancel()
				}()
			}
		}
		getsInFlight++
		t0 := simrt.Now()
		inv := simrt.Stamp()
		v, err := ch.Get(ctx)
		ret := simrt.Stamp()
		returned = true
		getsInFlight--
		if simrt.Now() > t0 {
			simrt.Probe("get_polled")
		}
		if err != nil {
			if !cancelInvoked && !closeInvoked && !parentInvoked {
				simrt.Failf("C13.spurious-error", "client %d: Get returned %v although neither its context was cancelled, nor the Channel closed, nor the parent context cancelled", client, err)
				return
			}
			simrt.Probe("get_failed")
			record(client, c13Get, inv, ret, c13Out{})
			return
		}
		i := toInt(v)
		if i < 0 || i > sendBegun {
			if v == nil || v == 0 {
				simrt.Failf("C13.zero-value", "client %d: Get returned the zero value %v (%T) as data (source closed: %v)", client, v, v, srcClosed)
			} else {
				simrt.Failf("C13.alien-value", "client %d: Get returned %v (%T); the feeder has only begun sending 1..%d", client, v, v, sendBegun)
			}
			return
		}
		if seen[i] {
			simrt.Probe("get_replayed_after_rollback")
			if !rollbackBegun {
				simrt.Failf("C13.duplicate", "client %d: Get returned %d a second time although no Rollback has even been invoked", client, i)
				return
			}
		}
		seen[i] = true
		simrt.Probe("get_ok")
		if srcClosed {
			simrt.Probe("get_ok_after_source_closed")
		}
		record(client, c13Get, inv, ret, c13Out{OK: true, V: i})
	}
	doOp := func(client int, op c13OpPlan) {
		switch op.kind {
		case c13Get:
			doGet(client, op)
		case c13Commit:
			inv := simrt.Stamp()
			err := ch.Commit()
			record(client, c13Commit, inv, simrt.Stamp(), c13Out{OK: err == nil})
			if err == nil {
				commits++
				simrt.Probe("commit_ok")
				if rolledBack {
					simrt.Probe("commit_after_rollback")
				}
			}
		case c13Rollback:
			rollbackBegun = true
			inv := simrt.Stamp()
			err := ch.Rollback()
			record(client, c13Rollback, inv, simrt.Stamp(), c13Out{OK: err == nil})
			if err == nil {
				if rolledBack {
					simrt.Probe("rollback_again")
				}
				rolledBack = true
				simrt.Probe("rollback_ok")
			}
		case c13Buffer:
			doBuffer(client, c13Buffer)
		case c13DoneObs:
			inv := simrt.Stamp()
			d := ch.Done()
			closed := false
			select {
			case <-d:
				closed = true
			default:
			}
			record(client, c13DoneObs, inv, simrt.Stamp(), c13Out{OK: closed})
		case c13Close:
			doClose(client)
		}
	}
	for c := range progs {
		c := c
		cwg.Add(1)
		go func() {
			defer cwg.Done()
			for _, op := range progs[c] {
				op.p.do(unit)
				if simrt.Failed() {
					return
				}
				doOp(c, op)
			}
		}()
	}
	if closer >= 2 {
		twg.Add(1)
		go func() {
			defer twg.Done()
			time.Sleep(time.Duration(closerAt) * unit)
			simrt.Stall(closerStall)
			if closer == 2 {
				doClose(nClients)
				return
			}
			if getsInFlight > 0 {
				simrt.Probe("parent_cancel_during_get")
			}
			parentInvoked = true
			simrt.Fault("ctx_cancel")
			inv := simrt.Stamp()
			parentCancel()
			if parentKind == 3 {
				// the end of a parent that is not a standard library context reaches the Channel's own
				// context through a goroutine of package context, at some point after this call: the
				// event is complete, at the latest, once Done is closed
				<-ch.Done()
			}
			record(nClients, c13ParentCancel, inv, simrt.Stamp(), c13Out{})
		}()
	}

	// ---------------- end of run ----------------
	cwg.Wait()
	twg.Wait()
	if simrt.Failed() {
		return
	}
	me := nClients + 1
	if (!closeInvoked && !parentInvoked) || mainCloseAnyway {
		doClose(me)
	}
	<-ch.Done() // closed by now, or about to be by the library's own goroutine (parent cancelled)
	if srcLen() > 0 {
		simrt.Probe("source_not_exhausted")
	}
	inv := simrt.Stamp()
	buf := doBuffer(me, c13Final)
	// a Get after Done must fail and take nothing
	if v, err := ch.Get(context.Background()); err == nil {
		simrt.Failf("C13.get-after-done", "Get returned %v after Done() was closed", v)
		return
	}
	draining = true
	close(stopFeed)
	fwg.Wait()
	var drained []int
	bad := false
	for more := true; more; {
		var v any
		var ok bool
		if srcAny {
			select {
			case v, ok = <-srcAnyC:
			default:
				more = false
			}
		} else if srcNamed {
			var i c13N
			select {
			case i, ok = <-srcNam:
				v = i
			default:
				more = false
			}
		} else {
			var i int
			select {
			case i, ok = <-srcInt:
				v = i
			default:
				more = false
			}
		}
		if !more || !ok {
			break
		}
		i := toInt(v)
		if i < 0 {
			bad = true
		}
		drained = append(drained, i)
	}
	record(me, c13Final, inv, simrt.Stamp(), c13Out{Buf: buf, Drained: drained, Sent: sent})
	if takenAfterDone {
		simrt.Failf("C13.take-after-done", "a value left the source channel after Done() had been observed closed (nobody but the Channel receives from the source)")
		return
	}
	// conservation: committed ++ Buffer() ++ drained == 1..sent, in order. The committed prefix is
	// pinned exactly by the model (final op); here: the rest is gap-free, in order and ends at sent.
	all := append(append([]int(nil), buf...), drained...)
	for k, v := range all {
		if want := sent - len(all) + 1 + k; v != want || bad {
			simrt.Failf("C13.conservation", "after Done: Buffer()=%v, drained from the source=%v, but the feeder sent 1..%d: values were lost, duplicated or reordered", buf, drained, sent)
			return
		}
	}
	if len(all) > sent {
		simrt.Failf("C13.conservation", "after Done: Buffer()=%v ++ drained=%v is more than the feeder sent (1..%d)", buf, drained, sent)
		return
	}
	if commits == 0 && len(all) != sent {
		simrt.Failf("C13.conservation", "no Commit succeeded, but Buffer()=%v ++ drained=%v is not everything the feeder sent (1..%d)", buf, drained, sent)
		return
	}
	if srcClosed {
		simrt.Probe("source_closed")
	}
	simrt.Quiesce(-1)
	if len(hist.Ops) <= 60 {
		simrt.SetData(hist)
	} else {
		simrt.Probe("history_too_long")
	}
}

// c13DeadlineParent is a context that ends with context.DeadlineExceeded when expire is called.
type c13DeadlineParent struct {
	mu   sync.Mutex
	done chan struct{}
	err  error
}

func (c *c13DeadlineParent) Deadline() (time.Time, bool) { return time.Time{}, false }
func (c *c13DeadlineParent) Done() <-chan struct{}       { return c.done }
func (c *c13DeadlineParent) Value(any) any               { return nil }
func (c *c13DeadlineParent) Err() error {
	c.mu.Lock()
	defer c.mu.Unlock()
	return c.err
}
func (c *c13DeadlineParent) expire() {
	c.mu.Lock()
	defer c.mu.Unlock()
	if c.err == nil {
		c.err = context.DeadlineExceeded
		close(c.done)
	}
}

// c13N is a named element type: values of it are not ints.
type c13N int
