package harness

import (
	"bbsim/simrt"
)

// C07 — ChanPubSub: no deadlock, no false invariant panic under dynamic membership. Same workload
// generator as C06 (c06_pubsub.go) with heavier churn: more and shorter subscriptions, more
// withdrawals placed inside Sends, all unsubscribe paths (mid-send, before first receive, context
// cancel, early break, iterator never run, context cancelled before the iterator is run).
//
// Check ids:
//
//	C07.blocked      quiescent (no task can run, no timer pending), all subscribers inside the contract,
//	                 and a Send / Add / Wait / iterator has not returned
//	C07.panic        a call of a contract-abiding client panicked (invariant-violation text or any other)
//	C07.count        all calls returned and Add(0) != subscriptions made minus withdrawn
//	C07.fresh-round  after everything was withdrawn, a fresh subscriber + Send round does not work
//	C07.iterator-ended the iterator returned although nobody withdrew the subscription
//	deadlock / livelock (framework) as a backstop, e.g. the main task itself blocked in the fresh round
func init() {
	Register(Harness{Prop: "C07", Name: "C07/churn", Run: c07Churn})
}

var c07Profile = psProfile{prop: "C07", maxSubs: 4, maxSess: 3, audNum: 1, audDen: 3, churn: true, failStuck: true}

func c07Churn() {
	plan := drawPSPlan(c07Profile)
	rounds := 1 + simrt.Draw(2) // fresh rounds after the shutdown
	r := newPSRun(c07Profile, plan)
	if !r.run() {
		return
	}
	r.historyProbes()
	// the instance is not broken: a fresh subscriber and one Send
	for k := 0; k < rounds; k++ {
		val := 9100 + k
		got := 0
		done := false
		func() {
			defer r.guard("main task (fresh round)")
			r.x.Add(1)
			go func() {
				defer r.guard("fresh subscriber")
				v := <-r.x.C()
				r.x.Wait()
				got = v
				r.x.Add(-1)
				done = true
			}()
			if n := r.x.Send(val); n != 1 {
				simrt.Failf("C07.fresh-round", "after every subscription was withdrawn, one fresh subscriber was added and Send(%d) returned %d, want 1", val, n)
			}
		}()
		simrt.Quiesce(-1)
		if simrt.Failed() {
			return
		}
		if !done || got != val {
			simrt.Failf("C07.fresh-round", "fresh subscriber: finished=%v, received %d, want %d", done, got, val)
			return
		}
		if c := r.x.Add(0); c != 0 {
			simrt.Failf("C07.count", "after the fresh round Add(0)=%d, want 0", c)
			return
		}
	}
	simrt.Probe("fresh_round_ok")
}
