// Package harness holds the per-property workloads and oracles. It is written against the standard
// sync/time/context packages and the public API of go-bigbuff; the instrumentation pass puts it
// under the simulator together with the library, so every goroutine, channel operation and lock in
// here is scheduled by the seeded scheduler as well.
package harness

import "sort"

// Harness is one workload + oracle for one property.
type Harness struct {
	Prop string
	Name string
	Run  func()
	// DeadlockOK: a run that ends with harness tasks still blocked is only an anomaly (properties
	// whose statement says nothing about termination).
	DeadlockOK bool
	// LivelockOK: exhausting the fair step budget is only an anomaly.
	LivelockOK bool
	// Post, if set, is the post-run oracle: it receives what the run handed to simrt.SetData and
	// runs outside the simulation (real time, real goroutines: linearizability checking lives
	// here). It returns a check id ("" = held), a message, and whether the result was inconclusive.
	Post func(data any) (check, msg string, inconclusive bool)
	// Weight is the relative share of runs among the property's harnesses (default 1).
	Weight int
}

var registry []Harness

func Register(h Harness) {
	if h.Weight == 0 {
		h.Weight = 1
	}
	registry = append(registry, h)
}

// For returns the harnesses of a property in registration order (sorted by name for stability).
func For(prop string) []Harness {
	var out []Harness
	for _, h := range registry {
		if h.Prop == prop {
			out = append(out, h)
		}
	}
	if prop == "C11" {
		// the race build also runs the other properties' workloads (their oracles stay on, their
		// harness-side bookkeeping races are classified as harness-only and ignored): many more ways of
		// driving the API than the dedicated C11 workloads, all judged by the race detector
		for _, h := range registry {
			if h.Prop != "C11" && !raceSkip[h.Name] {
				h.Name = "C11/as-" + h.Name
				h.Prop = "C11"
				h.Weight = 1
				out = append(out, h)
			}
		}
	}
	sort.SliceStable(out, func(i, j int) bool { return out[i].Name < out[j].Name })
	return out
}

// raceSkip lists harnesses that are not reused by C11: misuse harnesses drive the library outside its
// contract, which C11 excludes.
// The C16 harnesses publish the combinator's result to already-running observer tasks through a plain
// harness variable, which the detector rightly sees as a harness-side race on the context's memory.
// C05/waitcond-rlocker shows the known finding D6 (a C05 matter, listed for C05 only).
var raceSkip = map[string]bool{"C08/misuse": true, "C08/misuse-literal": true,
	"C16/combine": true, "C16/conflated": true, "C16/chain": true, "C05/waitcond-rlocker": true}

func Props() []string {
	seen := map[string]bool{}
	var out []string
	for _, h := range registry {
		if !seen[h.Prop] {
			seen[h.Prop] = true
			out = append(out, h.Prop)
		}
	}
	sort.Strings(out)
	return out
}
