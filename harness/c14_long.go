package harness

import (
	"bbsim/simrt"

	bigbuff "github.com/joeycumines/go-bigbuff"
)

// C14/long: one Workers value with a long history: 2-4 callers, 100-600 Calls in all with one small
// count, short functions, so that the queue is rarely empty and hundreds of values pass through it without
// the pool ever going idle. Exactly-once, own result, bounded concurrency, everything returns, and the pool
// is idle and usable at the end. Whatever the pool keeps across calls (queue storage, counters, recycled
// workers) has gone through hundreds of rounds.
func init() {
	Register(Harness{Prop: "C14", Name: "C14/long", Run: c14Long, Weight: 1})
}

func c14Long() {
	var w bigbuff.Workers
	count := simrt.DrawRange(1, 3)
	callers := simrt.DrawRange(2, 4)
	per := simrt.DrawRange(100/callers+1, 600/callers)
	total := callers * per
	if total > 256+callers {
		simrt.Probe("more_than_256_values_through_one_pool")
	}
	runs := make([]int, total)
	running, maxRunning := 0, 0
	finished := 0
	for c := 0; c < callers; c++ {
		c := c
		go func() {
			for i := 0; i < per; i++ {
				id := c*per + i
				res, err := w.Call(count, func() (interface{}, error) {
					runs[id]++
					if running++; running > maxRunning {
						maxRunning = running
					}
					if id%7 == 0 {
						simrt.Stall(1)
					}
					running--
					return id, nil
				})
				if simrt.Failed() {
					return
				}
				if err != nil || res != id {
					simrt.Failf("C14.wrong-result", "call %d of a long history (%d callers, %d calls each, count %d): Call returned (%v, %v), its function returns (%d, nil)", id, callers, per, count, res, err, id)
					return
				}
				if runs[id] != 1 {
					simrt.Failf("C14.ran-twice", "call %d of a long history: its function has run %d times when Call returned", id, runs[id])
					return
				}
			}
			finished++
		}()
	}
	simrt.Quiesce(-1)
	if simrt.Failed() {
		return
	}
	if finished != callers {
		simrt.Failf("C14.starved", "long history (%d callers, %d calls each, count %d): quiescent, no function is held, and %d callers have not finished", callers, per, count, callers-finished)
		return
	}
	for id, n := range runs {
		if n != 1 {
			simrt.Failf("C14.ran-twice", "long history: function %d ran %d times", id, n)
			return
		}
	}
	if maxRunning > count {
		simrt.Failf("C14.too-many-running", "long history: %d functions ran at once, every Call asked for %d", maxRunning, count)
		return
	}
	waited := false
	go func() { w.Wait(); waited = true }()
	simrt.Quiesce(-1)
	if !waited {
		simrt.Failf("C14.wait-stuck", "long history: everything returned and Wait has not")
		return
	}
	if n := w.Count(); n != 0 {
		simrt.Failf("C14.count-not-zero", "long history: Count()=%d after Wait", n)
		return
	}
	if res, err := w.Call(1, func() (interface{}, error) { return "fresh", nil }); res != "fresh" || err != nil {
		simrt.Failf("C14.fresh-call", "long history: a new Call returned (%v, %v)", res, err)
	}
}
