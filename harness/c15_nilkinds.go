package harness

import (
	"reflect"
	"unsafe"

	"bbsim/simrt"

	bigbuff "github.com/joeycumines/go-bigbuff"
)

// C15/nil-kinds: one key, one subscription per element kind (a drawn subset, in a drawn order), every
// target with room for two values; Publish(key, nil), sometimes next to an ordinary publish. An untyped nil
// is accepted by exactly the element types that have a nil value (channel, function, interface, map,
// pointer, slice, unsafe.Pointer): each of those targets holds one nil, the others hold nothing.
func init() {
	Register(Harness{Prop: "C15", Name: "C15/nil-kinds", Run: c15NilKinds, Weight: 1})
}

func c15NilKinds() {
	type target struct {
		name    string
		ch      any
		nilable bool
	}
	all := []target{
		{"chan chan int", make(chan chan int, 2), true},
		{"chan <-chan int", make(chan (<-chan int), 2), true},
		{"chan func()", make(chan func(), 2), true},
		{"chan any", make(chan any, 2), true},
		{"chan error", make(chan error, 2), true},
		{"chan map[string]int", make(chan map[string]int, 2), true},
		{"chan *T", make(chan *c15T, 2), true},
		{"chan []int", make(chan []int, 2), true},
		{"chan unsafe.Pointer", make(chan unsafe.Pointer, 2), true},
		{"chan int", make(chan int, 2), false},
		{"chan string", make(chan string, 2), false},
		{"chan struct{}", make(chan struct{}, 2), false},
		{"chan [2]int", make(chan [2]int, 2), false},
		{"chan bool", make(chan bool, 2), false},
		{"chan float64", make(chan float64, 2), false},
		{"chan uintptr", make(chan uintptr, 2), false},
		{"chan T", make(chan c15T, 2), false},
	}
	for i := len(all) - 1; i > 0; i-- {
		k := simrt.Draw(i + 1)
		all[i], all[k] = all[k], all[i]
	}
	n := simrt.DrawRange(1, len(all))
	chosen := all[:n]
	var nf bigbuff.Notifier
	for _, t := range chosen {
		nf.Subscribe("k", t.ch)
	}
	withInt := simrt.Chance(1, 3)
	returned := 0
	go func() { nf.Publish("k", nil); returned++ }()
	if withInt {
		go func() { nf.Publish("k", 5); returned++ }()
	}
	simrt.Quiesce(-1)
	if simrt.Failed() {
		return
	}
	want := 1
	if withInt {
		want = 2
	}
	if returned != want {
		simrt.Failf("C15.stuck", "every target has room for the value: %d of %d publishes returned", returned, want)
		return
	}
	for _, t := range chosen {
		v := reflect.ValueOf(t.ch)
		got := v.Len()
		exp := 0
		if t.nilable {
			exp = 1
		}
		extra := 0
		if withInt && (t.name == "chan int" || t.name == "chan any") {
			extra = 1
		}
		if got != exp+extra {
			simrt.Failf("C15.nil-delivery", "Publish(key, nil) with %d subscriptions of assorted element types: target %s holds %d values, want %d (an untyped nil goes to every element type that has a nil value, and to no other)", n, t.name, got, exp+extra)
			return
		}
		nils := 0
		for i := 0; i < got; i++ {
			x, _ := v.Recv()
			switch x.Kind() {
			case reflect.Chan, reflect.Func, reflect.Interface, reflect.Map, reflect.Pointer, reflect.Slice, reflect.UnsafePointer:
				if x.IsNil() {
					nils++
				}
			}
		}
		if nils != exp {
			simrt.Failf("C15.nil-delivery", "target %s: %d nil values received from one Publish(key, nil), want %d", t.name, nils, exp)
			return
		}
		nf.Unsubscribe("k", t.ch)
	}
}
