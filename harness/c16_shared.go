package harness

import (
	"context"

	"bbsim/simrt"

	bigbuff "github.com/joeycumines/go-bigbuff"
)

func init() {
	Register(Harness{Prop: "C16", Name: "C16/combine-shared", Run: c16CombineShared, Weight: 1})
}

// c16CombineShared: several goroutines call CombineContext at the same time with their own primary and
// the SAME slice of others, spread as the variadic argument (a package-level list of shutdown / drain
// contexts handed to every request is the usual shape). Each result must follow every non-nil entry
// of that list, whatever the other calls were doing with it meanwhile: after one drawn input is
// cancelled, every result is cancelled at quiescence; before that, none is.
func c16CombineShared() {
	n := simrt.DrawRange(2, 4)
	shared := make([]context.Context, n)
	var live []*c16In
	for i := range shared {
		if simrt.Chance(1, 3) {
			simrt.Probe("nil_other")
			continue
		}
		in := c16DrawInput(i + 1)
		in.pre = false
		shared[i] = in.ctx
		live = append(live, in)
	}
	callers := simrt.DrawRange(2, 3)
	results := make([]context.Context, callers)
	prim := make([]*c16In, callers)
	pauses := make([]pause, callers)
	for k := range prim {
		if simrt.Chance(2, 3) {
			prim[k] = c16DrawInput(0)
			prim[k].pre = false
		}
		pauses[k] = drawPause()
	}
	returned := 0
	for k := 0; k < callers; k++ {
		k := k
		go func() {
			pauses[k].do(1000)
			var p context.Context
			if prim[k] != nil {
				p = prim[k].ctx
			}
			results[k] = bigbuff.CombineContext(p, shared...)
			returned++
		}()
	}
	simrt.Quiesce(-1)
	if simrt.Failed() {
		return
	}
	if returned != callers {
		simrt.Failf("C16.combine-blocked", "%d of %d concurrent CombineContext calls have not returned", callers-returned, callers)
		return
	}
	simrt.Probe("combine_concurrent_calls_sharing_others")
	mayExpire := false // an input with a timeout may have ended by itself
	for _, in := range live {
		mayExpire = mayExpire || in.invoked
	}
	for _, in := range prim {
		mayExpire = mayExpire || (in != nil && in.invoked)
	}
	for k, r := range results {
		if r == nil {
			simrt.Failf("C16.combine-nil", "CombineContext returned nil")
			return
		}
		if err := r.Err(); err != nil && !mayExpire {
			simrt.Failf("C16.combine-spurious", "result %d is cancelled (%v) although no input's cancel has been invoked", k, err)
			return
		}
	}
	if len(live) > 0 {
		victim := live[simrt.Draw(len(live))]
		victim.doCancel()
		simrt.Quiesce(-1)
		if simrt.Failed() {
			return
		}
		for k, r := range results {
			if r.Err() == nil {
				simrt.Failf("C16.combine-not-cancelled", "quiescent: one of the others shared by %d concurrent CombineContext calls has been cancelled, but result %d is still live", callers, k)
				return
			}
		}
	}
	for _, in := range live {
		in.cancel()
	}
	for _, p := range prim {
		if p != nil {
			p.cancel()
		}
	}
	simrt.Quiesce(-1)
}

func init() {
	Register(Harness{Prop: "C16", Name: "C16/recombine", Run: c16Recombine, Weight: 1})
}

// c16Recombine: a result of CombineContext is detached from cancellation (context.WithoutCancel, or
// as the first input of ConflatedContext, which keeps its values only) and combined again with the
// same other context: a new result, cancelled exactly when that other is.
func c16Recombine() {
	req := c16DrawInput(0)
	shutdown := c16DrawInput(1)
	req.pre, shutdown.pre = false, false
	if shutdown.invoked { // (an input that may expire by itself would make "live" undecidable)
		shutdown = &c16In{idx: 1}
		shutdown.ctx, shutdown.cancel = context.WithCancel(context.Background())
	}
	first := bigbuff.CombineContext(req.ctx, shutdown.ctx)
	var detached context.Context
	var release context.CancelFunc = func() {}
	if simrt.Chance(1, 2) {
		detached = context.WithoutCancel(first)
	} else {
		detached, release = bigbuff.ConflatedContext(first, context.Background())
	}
	defer release()
	second := bigbuff.CombineContext(detached, shutdown.ctx)
	simrt.Probe("result_detached_and_combined_again")
	simrt.Quiesce(-1)
	if second.Err() != nil && !req.invoked {
		simrt.Failf("C16.combine-spurious", "re-combined result is cancelled (%v) although nothing has been cancelled", second.Err())
		return
	}
	shutdown.doCancel()
	simrt.Quiesce(-1)
	if second.Err() == nil {
		simrt.Failf("C16.combine-not-cancelled", "CombineContext(detached result of an earlier CombineContext, shutdown): shutdown has been cancelled and everything is quiescent, but the result is still live")
		return
	}
	req.cancel()
	simrt.Quiesce(-1)
}
