package harness

import (
	"context"
	"errors"
	"fmt"
	"time"

	"bbsim/simrt"

	bigbuff "github.com/joeycumines/go-bigbuff"
)

func init() {
	Register(Harness{Prop: "C18", Name: "C18/retry", Run: c18Retry})
}

// outcomes of one scripted operation call
const (
	c18Plain = iota
	c18Success
	c18Fatal
)

// cancel plans
const (
	c18NoCancel    = iota
	c18BeforeFirst // cancel() returned before the retry function is invoked
	c18DuringCall  // triggered by the start of call j (the call then takes a while)
	c18AfterCall   // triggered by the return of call j: lands between the failure and its wait, or in the wait
	c18AtTime      // after a simulated delay
	c18AfterSteps  // after a number of scheduling steps
)

type c18Res struct{ Inv, Call int }

type c18Call struct {
	idx                  int
	inv, ret             int64
	startAt, endAt       time.Duration
	logAtStart, logAtEnd int
	outcome              int
	res                  *c18Res
	err                  error
}

// c18Script is the drawn plan of one invocation of the function returned by ExponentialRetry.
type c18Script struct {
	nFail int // plain errors before the ending call
	end   int // 0 success, 1..3 fatal nested that deep, -1 never ends
	durs  []pause
}

// c18ErrList is an error type with an uncomparable dynamic type.
type c18ErrList []string

func (e c18ErrList) Error() string { return fmt.Sprint([]string(e)) }

type c18Inv struct {
	n           int
	script      c18Script
	inner       error // the innermost error a fatal ending wraps
	calls       []*c18Call
	started     bool
	inOp        bool
	ended       bool // the ending call (success / fatal) has returned
	returned    bool
	logAtInv    int
	randAtInv   int
	invokedAt   int64 // stamp taken right before the retry function was invoked
	logAtRet    int
	ctxErrAtRet error // the context's Err() read right after the retry function returned
}

type c18State struct {
	rate, eff  time.Duration
	rid        int // task id of the task running the retry function
	ctx        context.Context
	cancel     context.CancelFunc
	cancelInv  int64
	cancelRet  int64
	byDeadline bool // the context also has a deadline
	cur        *c18Inv
	total      int // operation calls over all invocations
}

func (st *c18State) doCancel(where string) {
	if st.cancelInv != 0 {
		st.cancel()
		return
	}
	st.cancelInv = simrt.Stamp()
	simrt.Fault("ctx_cancel")
	if c := st.cur; c != nil && c.started && !c.returned {
		switch {
		case c.inOp:
			simrt.Probe("cancel_during_call")
		case len(c.calls) > 0 && len(st.waitTimers(c.calls[len(c.calls)-1].logAtEnd, len(simrt.TimerLog()))) > 0:
			simrt.Probe("cancel_during_wait")
		default:
			simrt.Probe("cancel_between_call_and_wait")
		}
	}
	st.cancel()
	st.cancelRet = simrt.Stamp()
	simrt.Logf("cancel (%s) inv=%d ret=%d", where, st.cancelInv, st.cancelRet)
}

// waitTimers returns the durations of the timers requested by the retry task in log[from:to].
func (st *c18State) waitTimers(from, to int) []time.Duration {
	var out []time.Duration
	log := simrt.TimerLog()
	if to > len(log) {
		to = len(log)
	}
	for i := from; i < to; i++ {
		if r := log[i]; r.Task == st.rid && r.Desc == "timer" {
			out = append(out, r.D)
		}
	}
	return out
}

// checkWait checks the wait requested after k failures, found in log[from:to]. nextStart >= 0 is the
// time the next call started (the wait then ran to completion).
func (st *c18State) checkWait(inv *c18Inv, k int, from, to int, prevEnd, nextStart time.Duration) bool {
	ws := st.waitTimers(from, to)
	if len(ws) > 1 {
		simrt.Failf("C18.wait-count", "invocation %d: %d timers were requested after failure %d (%v)", inv.n, len(ws), k, ws)
		return false
	}
	if len(ws) == 0 {
		simrt.Probe("zero_wait")
		return true
	}
	d := ws[0]
	sh := k
	if sh > 31 {
		sh = 31
	}
	maxM := int64(1)<<uint(sh) - 1
	if d <= 0 || d%st.eff != 0 || int64(d/st.eff) > maxM {
		simrt.Failf("C18.wait-out-of-range", "invocation %d: the wait before retry %d (after %d failures) was %v = %d ns; it must be m x %v with 0 <= m <= %d (rate argument %v)", inv.n, k, k, d, int64(d), st.eff, maxM, st.rate)
		return false
	}
	if int64(d/st.eff) == maxM {
		simrt.Probe("max_slot_wait")
	}
	if k >= 32 {
		simrt.Probe("wait_after_32_or_more_failures")
	}
	if nextStart >= 0 && nextStart < prevEnd+d {
		simrt.Failf("C18.wait-too-short", "invocation %d: retry %d started at %v, but the previous call ended at %v and a wait of %v was requested", inv.n, k, nextStart, prevEnd, d)
		return false
	}
	return true
}

func c18DrawScript(long bool) c18Script {
	s := c18Script{}
	switch {
	case long:
		s.nFail = simrt.DrawRange(33, 38)
	case simrt.Chance(1, 6):
		s.nFail = 0
	default:
		s.nFail = simrt.DrawRange(0, 7)
	}
	switch simrt.Draw(6) {
	case 0, 1:
		s.end = 0
	case 2:
		s.end = 1
	case 3:
		s.end = simrt.DrawRange(2, 3)
	default:
		s.end = -1
	}
	nd := s.nFail + 1
	if nd > 10 {
		nd = 10
	}
	for i := 0; i < nd; i++ {
		switch simrt.Draw(5) {
		case 0:
			s.durs = append(s.durs, pause{1, simrt.DrawRange(1, 4)})
		case 1:
			s.durs = append(s.durs, pause{2, simrt.DrawRange(1, 15)})
		default:
			s.durs = append(s.durs, pause{})
		}
	}
	return s
}

func c18Retry() {
	// ---- program, drawn up front
	long := simrt.Chance(1, 10)
	var rate time.Duration
	if long {
		// (3s: the largest delay, (2^31-1) x 3s, still fits a Duration; a bound computed one bit too early does not)
		rate = []time.Duration{1, 7, time.Microsecond, time.Millisecond, 3 * time.Second}[simrt.Draw(5)]
	} else {
		rate = []time.Duration{-5, 0, 1, 7, time.Microsecond, time.Millisecond}[simrt.Draw(6)]
	}
	eff := rate
	if eff <= 0 {
		eff = 300 * time.Millisecond
	}
	nInv := 1
	if simrt.Chance(1, 4) {
		nInv = 2
	}
	invs := make([]*c18Inv, nInv)
	neverEnds := false
	for i := range invs {
		invs[i] = &c18Inv{n: i, script: c18DrawScript(long && i == 0), inner: fmt.Errorf("inner error of invocation %d", i)}
		if simrt.Chance(1, 3) {
			// the error handed to FatalError wraps another one itself: it is returned as it is, its own
			// wrapping is not the library's to remove
			invs[i].inner = fmt.Errorf("inner error of invocation %d: %w", i, errors.New("its cause"))
			simrt.Probe("fatal_payload_wraps_an_error")
		}
		if invs[i].script.end < 0 {
			neverEnds = true
		}
	}
	plan := simrt.Draw(8)
	if plan > c18AfterSteps {
		plan = c18NoCancel
	}
	if neverEnds && (plan == c18NoCancel || plan == c18BeforeFirst && simrt.Chance(2, 3)) {
		plan = []int{c18DuringCall, c18AfterCall, c18AfterCall, c18AtTime, c18AfterSteps}[simrt.Draw(5)]
	}
	trigCall := simrt.DrawRange(0, 6) // global call index for the call-triggered plans
	if long && simrt.Chance(2, 3) {
		trigCall = simrt.DrawRange(30, 36)
	}
	trigStall := simrt.DrawRange(0, 8)
	cancelSleep := time.Duration([]int{0, 1, 2, 3, 5, 9, 17, 40}[simrt.Draw(8)]) * eff / 2
	cancelSteps := simrt.DrawRange(0, 60)
	longCall := pause{1, simrt.DrawRange(1, 3)}
	if simrt.Chance(1, 2) {
		longCall = pause{2, simrt.DrawRange(5, 25)}
	}
	unit := eff / 2
	if unit == 0 {
		unit = 1
	}

	st := &c18State{rate: rate, eff: eff, rid: -1}
	switch simrt.Draw(5) {
	default:
		st.ctx, st.cancel = context.WithCancel(context.Background())
	case 0:
		// cancelled with a cause: the retry function still returns the context's error (Err), not the cause
		ctx, cc := context.WithCancelCause(context.Background())
		st.ctx, st.cancel = ctx, func() { cc(errors.New("application cause")) }
		simrt.Probe("context_with_cancel_cause")
	case 1:
		// a deadline some slots away: it may fall into a call, into a wait (which it cuts short, and not a
		// moment earlier), or after the end; the cancel plan still applies, whichever comes first
		st.byDeadline = true
		far := eff * time.Duration([]int{1, 2, 3, 5, 9, 17, 40, 200}[simrt.Draw(8)])
		st.ctx, st.cancel = context.WithTimeout(context.Background(), far)
		simrt.Probe("context_with_deadline")
		go func() {
			<-st.ctx.Done()
			if st.cancelInv == 0 {
				// the deadline passed (some steps ago): from here on it counts as a completed cancellation
				simrt.Probe("context_ended_by_deadline")
				st.cancelInv = simrt.Stamp()
				st.cancelRet = st.cancelInv
			}
		}()
	}
	trig := make(chan struct{})
	trigClosed := false
	fire := func() {
		if !trigClosed {
			trigClosed = true
			close(trig)
		}
	}

	op := func() (interface{}, error) {
		// always a scheduling point: a (broken) retry loop that never reaches one of its own could
		// otherwise spin without the simulator ever getting the baton back
		invStamp, cancelRetAtEntry := simrt.Stamp(), st.cancelRet // read in the step of the call itself
		time.Sleep(0)
		inv := st.cur
		i := len(inv.calls)
		g := st.total
		st.total++
		c := &c18Call{idx: i, inv: invStamp, startAt: simrt.Now(), logAtStart: len(simrt.TimerLog()), res: &c18Res{inv.n, i}}
		// The library checks the context and then calls the operation: a cancel may complete between the
		// two. A call is only illegal if the whole gap in which that check must have happened (from the end
		// of the previous call, or from the invocation of the retry function, to this call) lies after the
		// cancel had returned.
		gapStart := inv.invokedAt
		if i > 0 {
			gapStart = inv.calls[i-1].ret
		}
		if cancelRetAtEntry != 0 && gapStart > cancelRetAtEntry {
			simrt.Failf("C18.call-after-cancel", "invocation %d: operation call %d started (stamp %d) although cancel() had returned (stamp %d) before the previous call ended / the function was invoked (stamp %d): the context was checked after the cancellation and the operation was called all the same",
				inv.n, i, c.inv, cancelRetAtEntry, gapStart)
			return nil, errors.New("stop")
		}
		if cancelRetAtEntry != 0 {
			simrt.Probe("call_overlapping_cancel_window")
		}
		if inv.ended {
			simrt.Failf("C18.called-after-end", "invocation %d: operation called again (call %d) after call %d ended the loop (outcome %d)", inv.n, i, i-1, inv.calls[i-1].outcome)
			return nil, errors.New("stop")
		}
		if inv.returned || simrt.CurrentID() != st.rid {
			simrt.Failf("C18.called-outside", "invocation %d: operation call %d made outside the retry function's own call", inv.n, i)
			return nil, errors.New("stop")
		}
		if i == 0 {
			if ws := st.waitTimers(inv.logAtInv, c.logAtStart); len(ws) > 0 {
				simrt.Failf("C18.wait-count", "invocation %d: a wait of %v was requested before the first call", inv.n, ws[0])
				return nil, errors.New("stop")
			}
		} else {
			prev := inv.calls[i-1]
			if !st.checkWait(inv, i, prev.logAtEnd, c.logAtStart, prev.endAt, c.startAt) {
				return nil, errors.New("stop")
			}
		}
		inv.calls = append(inv.calls, c)
		inv.inOp = true
		if plan == c18DuringCall && g == trigCall {
			fire()
			longCall.do(unit)
		} else if i < len(inv.script.durs) {
			inv.script.durs[i].do(unit)
		}
		if inv.script.end < 0 && g >= 70 {
			st.doCancel("safety net") // bounds a never-ending script whatever the plan
		}
		switch {
		case i < inv.script.nFail || inv.script.end < 0:
			c.outcome = c18Plain
			c.err = fmt.Errorf("plain error %d.%d", inv.n, i)
			switch (inv.n + i) % 7 {
			case 2, 5:
				// an error whose dynamic type is not comparable (a slice): still just a plain error
				c.err = c18ErrList{"plain", "uncomparable"}
				simrt.Probe("uncomparable_plain_error")
			case 3:
				// a plain error that merely has a fatal one further down its chain: it is not "wrapped by
				// FatalError", the operation is retried
				c.err = fmt.Errorf("plain error %d.%d: %w", inv.n, i, bigbuff.FatalError(errors.New("buried")))
				simrt.Probe("plain_error_with_buried_fatal")
			case 4:
				// the operation's own attempt ran into some other context's end: a plain error like any other
				c.err = fmt.Errorf("plain error %d.%d: %w", inv.n, i, []error{context.Canceled, context.DeadlineExceeded}[i%2])
				simrt.Probe("plain_error_wrapping_a_context_error")
			}
			simrt.Fault("op_error")
		case inv.script.end == 0:
			c.outcome = c18Success
			simrt.Probe("op_success")
			if i >= 33 {
				simrt.Probe("success_after_33_or_more_failures")
			}
		default:
			c.outcome = c18Fatal
			c.err = inv.inner
			for d := 0; d < inv.script.end; d++ {
				c.err = bigbuff.FatalError(c.err)
			}
			simrt.Fault("op_fatal")
			if inv.script.end > 1 {
				simrt.Probe("fatal_nested")
			}
		}
		if c.outcome != c18Plain {
			inv.ended = true
			if st.cancelInv != 0 {
				simrt.Probe("ending_call_overlaps_cancel")
			}
		}
		c.ret = simrt.Stamp()
		c.endAt = simrt.Now()
		c.logAtEnd = len(simrt.TimerLog())
		inv.inOp = false
		if plan == c18AfterCall && g == trigCall {
			fire()
		}
		return c.res, c.err
	}

	verify := func(inv *c18Inv, res interface{}, err error) bool {
		var last *c18Call
		if n := len(inv.calls); n > 0 {
			last = inv.calls[n-1]
		}
		// the random slot ranges the library asked for: one draw per plain failure, the k-th over
		// exactly 2^min(k,31) slots (the range is what the math/rand seam is asked for, so a range that
		// is too small is visible even when the drawn slot happens to be legal)
		var draws, slots []int64
		for _, d := range simrt.RandLog()[inv.randAtInv:] {
			if d.Task == st.rid {
				draws = append(draws, d.N)
				slots = append(slots, d.Value)
			}
		}
		plain := 0
		for _, c := range inv.calls {
			if c.outcome == c18Plain {
				plain++
			}
		}
		if len(draws) == plain {
			for i, n := range draws {
				k := i + 1
				if k > 31 {
					k = 31
				}
				if n != int64(1)<<uint(k) {
					simrt.Failf("C18.slot-range", "invocation %d: after failure %d the random slot was drawn from [0,%d), the statement requires [0, 2^min(k,31)) = [0,%d)", inv.n, i+1, n, int64(1)<<uint(k))
					return false
				}
			}
			simrt.Probe("slot_ranges_checked")
			// ... and the wait requested after failure k is exactly (the slot that was drawn) x (the rate,
			// 300ms when the rate argument is <= 0): a timer of that duration, or none when the slot is 0
			ti := 0
			var timers []time.Duration
			for _, r := range simrt.TimerLog()[inv.logAtInv:inv.logAtRet] {
				if r.Task == st.rid && r.Desc == "timer" {
					timers = append(timers, r.D)
				}
			}
			exact := true
			for i, m := range slots {
				want := time.Duration(m) * st.eff
				if m == 0 {
					continue
				}
				if ti >= len(timers) || timers[ti] != want {
					got := time.Duration(-1)
					if ti < len(timers) {
						got = timers[ti]
					}
					simrt.Failf("C18.wait-exact", "invocation %d: after failure %d the slot drawn was %d, so the wait must be %d x %v = %v; the timer requested was %v (-1ns: none) (rate argument %v)", inv.n, i+1, m, m, st.eff, want, got, st.rate)
					return false
				}
				ti++
			}
			if exact && ti != len(timers) {
				simrt.Failf("C18.wait-exact", "invocation %d: %d timers were requested but only %d non-zero slots were drawn", inv.n, len(timers), ti)
				return false
			}
		} else {
			simrt.Probe("slot_draws_not_one_per_failure")
		}
		// the wait after the last failure (cut short by the cancellation), if any
		if last != nil && last.outcome == c18Plain {
			if !st.checkWait(inv, len(inv.calls), last.logAtEnd, inv.logAtRet, last.endAt, -1) {
				return false
			}
		} else if last != nil {
			if ws := st.waitTimers(last.logAtEnd, inv.logAtRet); len(ws) > 0 {
				simrt.Failf("C18.wait-count", "invocation %d: a wait of %v was requested after the call that ended the loop", inv.n, ws[0])
				return false
			}
		}
		switch {
		case last != nil && last.outcome == c18Success:
			if err != nil || res != interface{}(last.res) {
				simrt.Failf("C18.wrong-result", "invocation %d: call %d succeeded with %v, but the retry function returned (%v, %v)", inv.n, last.idx, *last.res, res, err)
				return false
			}
		case last != nil && last.outcome == c18Fatal:
			if err != inv.inner {
				simrt.Failf("C18.fatal-not-unwrapped", "invocation %d: call %d failed with the error wrapped by FatalError %d deep; the retry function returned error %#v (%T), not the innermost error itself", inv.n, last.idx, inv.script.end, err, err)
				return false
			}
			if res != interface{}(last.res) {
				simrt.Failf("C18.wrong-result", "invocation %d: fatal call %d returned result %v, but the retry function returned %v", inv.n, last.idx, *last.res, res)
				return false
			}
		default:
			if (st.cancelInv == 0 && !st.byDeadline) || inv.ctxErrAtRet == nil {
				simrt.Failf("C18.spurious-return", "invocation %d returned (%v, %v) after %d calls without success, fatal error or cancellation (the context's Err() right after the return: %v)", inv.n, res, err, len(inv.calls), inv.ctxErrAtRet)
				return false
			}
			if res != nil || err == nil || (err != context.Canceled && !st.byDeadline) || err != st.ctx.Err() {
				simrt.Failf("C18.wrong-result", "invocation %d was cut by cancellation after %d calls (all plain errors) but returned (%v, %v) instead of (nil, ctx.Err())", inv.n, len(inv.calls), res, err)
				return false
			}
			if len(inv.calls) == 0 {
				simrt.Probe("cancelled_before_first_call")
			}
		}
		return true
	}

	if plan == c18BeforeFirst {
		st.doCancel("before the first call")
	}
	rDone := false
	go func() {
		defer func() { rDone = true }()
		st.rid = simrt.CurrentID()
		fn := bigbuff.ExponentialRetry(st.ctx, rate, op)
		for _, inv := range invs {
			st.cur = inv
			inv.started = true
			inv.logAtInv = len(simrt.TimerLog())
			inv.invokedAt = simrt.Stamp()
			inv.randAtInv = len(simrt.RandLog())
			res, err := fn()
			inv.ctxErrAtRet = st.ctx.Err()
			inv.returned = true
			inv.logAtRet = len(simrt.TimerLog())
			if simrt.Failed() || !verify(inv, res, err) {
				return
			}
			if inv.n > 0 {
				simrt.Probe("second_invocation")
			}
		}
	}()
	switch plan {
	case c18DuringCall, c18AfterCall:
		go func() {
			<-trig
			simrt.Stall(trigStall)
			st.doCancel("triggered by a call")
		}()
	case c18AtTime:
		go func() {
			time.Sleep(cancelSleep)
			st.doCancel("timed")
		}()
	case c18AfterSteps:
		go func() {
			simrt.Stall(cancelSteps)
			st.doCancel("after steps")
		}()
	}

	// ---- look at every instant at which nothing can run and the clock is about to move
	d := time.Nanosecond
	for !rDone {
		simrt.Quiesce(d)
		if simrt.Failed() {
			return
		}
		if rDone {
			break
		}
		if c := st.cur; c != nil && c.started && !c.returned && !c.inOp {
			if c.ended {
				simrt.Failf("C18.no-return-after-end", "invocation %d: call %d ended the loop, everything is quiescent, and the retry function has not returned", c.n, len(c.calls)-1)
				return
			}
			if st.cancelRet != 0 {
				simrt.Failf("C18.wait-not-interrupted", "invocation %d: cancel() has returned, no operation call is in flight, nothing can run without the clock moving, and the retry function has not returned (a wait must be cut short by cancellation)", c.n)
				return
			}
		}
		if d >= 1<<61 {
			// waits of this run exceed what the doubling window reaches (rates of seconds after 30+
			// failures): let every remaining timer fire
			simrt.Quiesce(-1)
			if simrt.Failed() {
				return
			}
			if !rDone {
				if c := st.cur; c != nil && c.inOp {
					continue // an operation call is in flight (it sleeps): not the library's wait
				}
				simrt.Failf("C18.stuck", "the retry function has not returned with every timer fired")
				return
			}
			break
		}
		d *= 2
	}
	fire()
	simrt.Quiesce(-1)
	st.cancel()
}
