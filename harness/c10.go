package harness

// C10 — Exclusive: every call is answered by an execution begun after it; none lost.
//
// Workload: c09_common.go (shared with C09). Checks owned by this property:
//
//	C10.no-outcome / two-outcomes   an async channel yields exactly one value and is then closed
//	C10.lost-call / not-closed      quiescent, all timers drained: a call has no outcome / its channel was not closed
//	C10.stale-result                the answering execution started before the call was invoked
//	C10.wrong-key / wrong-outcome   outcome differs from what the answering execution resolved
//	C10.no-matching-execution       (non-unique outcomes: unresolved work, rate-limit context error)
//	                                no execution of the key started after the call explains the outcome
//	C10.fn-not-attached             the executed function belongs to a call answered by another execution
//	C10.fn-ran-twice / fn-before-call / more-executions-than-calls
//	C10.start-not-followed          a Start/StartAfter with no execution of its key beginning after it
//	C10.state-remains               all answered, all work returned, nothing can run: keys still tracked
//	C10.fresh-call                  afterwards a fresh Call per key runs its own function, returns its result
func init() {
	Register(Harness{Prop: "C10", Name: "C10/mix", Run: func() { exclusiveRun("C10") }, Weight: 3})
}
