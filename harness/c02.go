package harness

import (
	"context"
	"fmt"
	"runtime"
	"time"

	"bbsim/oracle"
	"bbsim/simrt"

	bigbuff "github.com/joeycumines/go-bigbuff"
)

func init() {
	Register(Harness{Prop: "C02", Name: "C02/txn", Run: c02Run, Post: c02Post, Weight: 5})
}

// txnModel is the sequential model of one consumer as its (single) user sees it: the values it
// knows are coming (read but not committed), and how many of them have been delivered since the last
// commit or rollback.
type txnModel struct {
	id        int
	known     []Val
	cur       int
	committed map[Val]bool
}

func (m *txnModel) get(v Val) bool {
	if m.cur < len(m.known) {
		if m.known[m.cur] != v {
			simrt.Failf("C02.replay", "consumer %d: expected the re-read of %v (position %d of the uncommitted reads %v), got %v", m.id, m.known[m.cur], m.cur, m.known, v)
			return false
		}
	} else {
		if m.committed[v] {
			simrt.Failf("C02.committed-returned-again", "consumer %d: %v was committed earlier and is returned again", m.id, v)
			return false
		}
		for _, k := range m.known {
			if k == v {
				simrt.Failf("C02.duplicate", "consumer %d: %v delivered twice among the uncommitted reads %v", m.id, v, m.known)
				return false
			}
		}
		m.known = append(m.known, v)
	}
	m.cur++
	return true
}

func (m *txnModel) commit(ok bool, closed bool) bool {
	if ok != (m.cur > 0) && !closed {
		simrt.Failf("C02.commit-result", "consumer %d: Commit returned ok=%v with %d reads pending", m.id, ok, m.cur)
		return false
	}
	if ok {
		for _, v := range m.known[:m.cur] {
			m.committed[v] = true
		}
		m.known = append([]Val(nil), m.known[m.cur:]...)
		m.cur = 0
	}
	return true
}

func (m *txnModel) rollback(ok bool) bool {
	if ok != (m.cur > 0) {
		simrt.Failf("C02.rollback-result", "consumer %d: Rollback returned ok=%v with %d reads pending", m.id, ok, m.cur)
		return false
	}
	m.cur = 0
	return true
}

type txnOp struct {
	kind       int // 0 get 1 commit 2 rollback 3 get-cancel 4 range 5 buffer-range 6 commit-twice 7 rollback-twice
	pause      pause
	cancelAt   int
	stopAt     int  // range: fn returns false at this index (-1 never)
	panicAt    int  // range: fn panics at this index (-1 never)
	putIn      int  // range: fn triggers a Put at this index (-1 never)
	goexitAt   int  // range: fn ends its goroutine (runtime.Goexit) at this index (-1 never)
	cleanFirst bool // range: roll back pending reads before the call
}

type sharedHist struct {
	ops   []oracle.Op
	base  int
	pos   map[Val]int
	known bool
}

type c02Data struct {
	shared []sharedHist
}

func c02Run() {
	r := newBufRun(bufMode{prop: "C02", ranges: true, shared: true})
	aud := r.newConsumer(true, false)
	if aud == nil {
		return
	}
	nCons := simrt.DrawRange(1, 3+simrt.Scale()-1)
	progs := make([][]txnOp, nCons)
	for i := range progs {
		n := simrt.DrawRange(2, 10*simrt.Scale())
		for j := 0; j < n; j++ {
			op := txnOp{pause: drawPause(), cancelAt: simrt.DrawRange(0, 6), stopAt: -1, panicAt: -1, putIn: -1, goexitAt: -1}
			switch x := simrt.Draw(16); {
			case x < 6:
				op.kind = 0
			case x < 8:
				op.kind = 1
			case x < 10:
				op.kind = 2
			case x < 11:
				op.kind = 3
			case x < 13:
				op.kind = 4
			case x < 14:
				op.kind = 5
			case x < 15:
				op.kind = 6
			default:
				op.kind = 7
			}
			if op.kind == 4 || op.kind == 5 {
				op.cleanFirst = simrt.Chance(1, 2)
				switch simrt.Draw(4) {
				case 0:
					op.stopAt = simrt.DrawRange(0, 3)
				case 1:
					op.panicAt = simrt.DrawRange(0, 3)
				case 2:
					if simrt.Chance(1, 2) {
						op.goexitAt = simrt.DrawRange(0, 3)
					}
				}
				if simrt.Chance(1, 4) {
					op.putIn = simrt.DrawRange(0, 2)
				}
			}
			progs[i] = append(progs[i], op)
		}
	}
	// shared consumer: 2-3 tasks, gets/commits/rollbacks only
	nShared := 0
	if simrt.Chance(1, 2) {
		nShared = simrt.DrawRange(2, 3)
	}
	sharedProgs := make([][]txnOp, nShared)
	for i := range sharedProgs {
		for n := simrt.DrawRange(1, 6); n > 0; n-- {
			op := txnOp{pause: drawPause(), cancelAt: simrt.DrawRange(0, 6), goexitAt: -1}
			switch x := simrt.Draw(9); {
			case x < 4:
				op.kind = 0
			case x < 6:
				op.kind = 1
			case x < 7:
				op.kind = 2
			case x < 8:
				op.kind = 3
			default:
				op.kind = 4 // a one-value Range on the shared consumer
			}
			sharedProgs[i] = append(sharedProgs[i], op)
		}
	}
	extraPuts := 0
	for _, p := range progs {
		for _, op := range p {
			if op.putIn >= 0 {
				extraPuts++
			}
		}
	}
	r.producers(2)
	// values put from inside Range callbacks come from one extra producer id
	extraProd := 9
	extraSeq := 0
	putExtra := func() {
		v := Val{P: extraProd, C: extraSeq, I: 0, Seq: extraSeq}
		extraSeq++
		put := &bufPut{prod: extraProd, call: v.C, vals: []Val{v}}
		r.all[v] = put
		r.puts = append(r.puts, put)
		r.single = false
		put.inv = simrt.Stamp()
		err := r.b.Put(bg, v)
		put.ret = simrt.Stamp()
		if err != nil {
			simrt.Failf("C02.put-failed", "Put failed: %v", err)
		}
		simrt.Probe("put_from_range_callback")
	}
	// the auditor reads until told to stop (the number of callback puts is not known up front)
	r.tasksLeft++
	go func() {
		defer func() { r.tasksLeft-- }()
		for {
			op := r.get(aud, -1)
			if simrt.Failed() || !op.ok {
				return
			}
			if !r.commit(aud).ok {
				simrt.Failf("C02.commit-result", "auditor: Commit after a successful Get failed")
				return
			}
		}
	}()
	inBufRange := 0
	models := map[int]*txnModel{}
	for _, prog := range progs {
		prog := prog
		r.tasksLeft++
		go func() {
			defer func() { r.tasksLeft-- }()
			k := r.newConsumer(false, false)
			if k == nil {
				return
			}
			m := &txnModel{id: k.id, committed: map[Val]bool{}}
			models[k.id] = m
			for _, op := range prog {
				if simrt.Failed() || r.stopInv != 0 {
					break
				}
				op.pause.do(r.unit)
				switch op.kind {
				case 0, 3:
					ca := -1
					if op.kind == 3 {
						ca = op.cancelAt
					}
					o := r.get(k, ca)
					if simrt.Failed() {
						return
					}
					if o.ok {
						if !m.get(o.v) {
							return
						}
					} else if !o.ctxErr {
						simrt.Failf("C02.get-error", "consumer %d: Get failed without any cancellation under the default cleaner", k.id)
						return
					}
				case 1, 6:
					if !m.commit(r.commit(k).ok, false) {
						return
					}
					if op.kind == 6 {
						if !m.commit(r.commit(k).ok, false) {
							return
						}
						simrt.Probe("commit_with_nothing_pending")
					}
				case 2, 7:
					if !m.rollback(r.rollback(k).ok) {
						return
					}
					if op.kind == 7 {
						if !m.rollback(r.rollback(k).ok) {
							return
						}
						simrt.Probe("rollback_with_nothing_pending")
					}
				case 4, 5:
					if !c02Range(r, k, m, op, &inBufRange, putExtra) {
						return
					}
				}
			}
			r.rollback(k)
		}()
	}
	var sk *bufCons
	sharedOps := []oracle.Op{}
	if nShared > 0 {
		sk = r.newConsumer(false, true)
		if sk == nil {
			return
		}
		for ti, prog := range sharedProgs {
			ti, prog := ti, prog
			r.tasksLeft++
			go func() {
				defer func() { r.tasksLeft-- }()
				for _, op := range prog {
					if simrt.Failed() || r.stopInv != 0 {
						break
					}
					op.pause.do(r.unit)
					var o *bufOp
					switch op.kind {
					case 4:
						// package Range for one value: Get, callback, Commit. Seen from outside: a get that
						// ended by the time the callback started, a commit that began when the callback
						// returned (both brackets are wider than the calls, which keeps the check sound)
						simrt.Probe("range_on_shared_consumer")
						start := simrt.Stamp()
						var cbIn, cbOut int64
						var val Val
						called, known := false, true
						// sometimes with a context of its own, cancelled after a while: a Range whose Get
						// fails in the middle of the history. Range works through the Consumer it is given:
						// a wrapper notes whether it got as far as Get, and the Rollback it made.
						rctx, cancelled := context.Context(r.stop), false
						spy := &c02Spy{Consumer: sk.c}
						if simrt.Chance(1, 3) {
							var rcancel context.CancelFunc
							rctx, rcancel = context.WithCancel(r.stop)
							d := simrt.DrawRange(0, 12)
							go func() {
								time.Sleep(time.Duration(d) * r.unit)
								cancelled = true
								simrt.Fault("ctx_cancel")
								rcancel()
							}()
						}
						err := bigbuff.Range(rctx, spy, func(_ int, x interface{}) bool {
							cbIn = simrt.Stamp()
							called = true
							val, known = asVal(x)
							cbOut = simrt.Stamp()
							return false
						})
						end := simrt.Stamp()
						if !known {
							simrt.Failf("C02.invented-value", "Range on the shared consumer delivered a value nobody put")
							return
						}
						if !called && cancelled && r.stopInv == 0 {
							// cancelled in the middle of the history
							if err != context.Canceled {
								simrt.Failf("C02.get-error", "shared consumer: Range whose context was cancelled returned %v", err)
								return
							}
							if !spy.getCalled {
								continue // stopped at its context check: nothing touched
							}
							simrt.Probe("range_get_failed_mid_history")
							if !spy.rbCalled {
								simrt.Failf("C02.range-no-rollback", "shared consumer: the Get of a package Range failed (its context was cancelled while it waited) and Range returned without a Rollback: when Get fails, what is in flight on that consumer is rolled back and is what the next read returns")
								return
							}
							sharedOps = append(sharedOps, oracle.Op{Client: ti, In: "get", Out: c02Out{ok: false}, Call: start, Return: spy.rbInv})
							sharedOps = append(sharedOps, oracle.Op{Client: ti, In: "rollback", Out: c02Out{ok: spy.rbErr == nil}, Call: spy.rbInv, Return: spy.rbRet})
							continue
						}
						if !called {
							if r.stopInv == 0 {
								simrt.Failf("C02.get-error", "shared consumer: Range failed (%v) before delivering anything, without any cancellation under the default cleaner", err)
								return
							}
							// Range answers a failed Get with a Rollback (of whatever the shared transaction holds)
							sharedOps = append(sharedOps, oracle.Op{Client: ti, In: "get", Out: c02Out{ok: false}, Call: start, Return: end})
							sharedOps = append(sharedOps, oracle.Op{Client: ti, In: "rollback-any", Out: c02Out{}, Call: start, Return: end})
							continue
						}
						sharedOps = append(sharedOps, oracle.Op{Client: ti, In: "get", Out: c02Out{ok: true, v: val}, Call: start, Return: cbIn})
						sharedOps = append(sharedOps, oracle.Op{Client: ti, In: "commit", Out: c02Out{ok: err == nil}, Call: cbOut, Return: end})
						if err != nil {
							// ... and a failed Commit likewise
							sharedOps = append(sharedOps, oracle.Op{Client: ti, In: "rollback-any", Out: c02Out{}, Call: cbOut, Return: end})
						}
						continue
					case 0:
						o = r.get(sk, -1)
					case 3:
						o = r.get(sk, op.cancelAt)
					case 1:
						o = r.commit(sk)
					case 2:
						o = r.rollback(sk)
					}
					if simrt.Failed() {
						return
					}
					if o.kind == "get" && !o.ok && !o.ctxErr {
						simrt.Failf("C02.get-error", "shared consumer: Get failed without any cancellation under the default cleaner")
						return
					}
					sharedOps = append(sharedOps, oracle.Op{Client: ti, In: o.kind, Out: c02Out{ok: o.ok, v: o.v}, Call: o.inv, Return: o.ret})
				}
			}()
		}
		simrt.Probe("shared_consumer")
	}
	r.observer()
	// let everything run; a Buffer.Range still in progress at quiescence is blocked, which the
	// property forbids
	simrt.Quiesce(-1)
	if simrt.Failed() {
		return
	}
	if inBufRange > 0 {
		simrt.Failf("C02.buffer-range-blocked", "Buffer.Range is blocked at quiescence instead of stopping at the end of the buffer")
		return
	}
	r.total = 0
	for _, p := range r.puts {
		r.total += len(p.vals)
	}
	if !r.finish() {
		return
	}
	if sk != nil {
		r.rollback(sk)
	}
	// the auditor's stream is the total order (it committed everything it read)
	if !r.orderOK {
		simrt.Failf("C02.loss", "the auditor read %d of the %d values put", len(r.order), r.total)
		return
	}
	// absolute check of single-user consumers: their first-delivery streams are contiguous runs
	for _, k := range r.cons {
		if k.shared || k.auditor {
			continue
		}
		var st []Val
		seen := map[Val]bool{}
		for _, op := range k.ops {
			if op.kind == "get" && op.ok && !seen[op.v] {
				seen[op.v] = true
				st = append(st, op.v)
			}
		}
		for i := 0; i+1 < len(st); i++ {
			if r.pos[st[i+1]] != r.pos[st[i]]+1 {
				simrt.Failf("C02.skip", "consumer %d: %v (position %d) is followed by %v (position %d)", k.id, st[i], r.pos[st[i]], st[i+1], r.pos[st[i+1]])
				return
			}
		}
	}
	if sk != nil && len(sharedOps) > 0 {
		h := sharedHist{ops: sharedOps, pos: r.pos, known: true, base: 1 << 30}
		for _, o := range sharedOps {
			out := o.Out.(c02Out)
			if o.In == "get" && out.ok && r.pos[out.v] < h.base {
				h.base = r.pos[out.v]
			}
		}
		simrt.SetData(&c02Data{shared: []sharedHist{h}})
	}
	r.shutdown()
}

type c02Out struct {
	ok bool
	v  Val
}

// c02Range runs bigbuff.Range or Buffer.Range with a scripted callback and checks it against the
// model.
func c02Range(r *bufRun, k *bufCons, m *txnModel, op txnOp, inBufRange *int, putExtra func()) bool {
	// A Range on a consumer that holds uncommitted reads commits them together with its first value
	// (the model's commit does the same) and counts them when it decides where the buffer ends; half of
	// the time the consumer is cleaned first.
	if m.cur > 0 {
		if op.cleanFirst {
			if !m.rollback(r.rollback(k).ok) {
				return false
			}
		} else {
			simrt.Probe("range_with_uncommitted_reads")
		}
	}
	ctx, cancel := context.WithCancel(r.stop)
	defer cancel()
	calls := 0
	stopped := false
	var lastFnRet int64 // stamp taken when the most recent callback returned
	var inflight *Val
	fn := func(index int, value interface{}) bool {
		if index != calls {
			simrt.Failf("C02.range-index", "consumer %d: callback index %d, expected %d", k.id, index, calls)
			return false
		}
		calls++
		v, ok := asVal(value)
		if !ok {
			simrt.Failf("C02.invented-value", "Range passed %#v to the callback", value)
			return false
		}
		k.ops = append(k.ops, &bufOp{kind: "get", ok: true, v: v, inv: simrt.Stamp(), ret: simrt.Stamp()})
		simrt.Logf("consumer %d range(kind %d) callback %d value %v", k.id, op.kind, index, v)
		if !m.get(v) {
			return false
		}
		inflight = &v
		if op.putIn == index {
			putExtra()
		}
		if op.panicAt == index {
			simrt.Fault("callback_panic")
			panic("c02 scripted callback panic")
		}
		if op.goexitAt == index {
			simrt.Fault("callback_goexit")
			runtime.Goexit()
		}
		// Range commits after the callback returns
		inflight = nil
		m.commit(true, false)
		lastFnRet = simrt.Stamp()
		if op.stopAt == index {
			stopped = true
			return false
		}
		return true
	}
	var err error
	panicked := false
	rangeInv := simrt.Stamp()
	startKnown := len(m.known)
	run := func() {
		defer func() {
			if x := recover(); x != nil {
				if s, ok := x.(string); !ok || s != "c02 scripted callback panic" {
					panic(x)
				}
				panicked = true
			}
		}()
		if op.kind == 5 {
			*inBufRange++
			defer func() { *inBufRange-- }()
			err = r.b.Range(ctx, k.c, fn)
		} else {
			// the package-level Range blocks at the end of the buffer: cancel it after a while
			d := op.cancelAt + 1
			go func() {
				time.Sleep(time.Duration(d) * r.unit)
				simrt.Fault("ctx_cancel")
				cancel()
			}()
			err = bigbuff.Range(ctx, k.c, fn)
		}
	}
	goexited := false
	if op.goexitAt >= 0 {
		// the callback may end its goroutine: run Range on a goroutine of its own
		finished := false
		doneCh := make(chan struct{})
		go func() {
			defer close(doneCh)
			run()
			finished = true
		}()
		<-doneCh
		goexited = !finished
	} else {
		run()
	}
	if simrt.Failed() {
		return false
	}
	simrt.Logf("consumer %d range(kind %d) returned err=%v panicked=%v stopped=%v calls=%d inv=%d", k.id, op.kind, err, panicked, stopped, calls, rangeInv)
	_ = startKnown
	switch {
	case goexited:
		// the callback never returned, so its value must not have been committed: it was rolled back and
		// is the next value the consumer returns
		m.cur = 0
		simrt.Probe("range_callback_goexit")
	case panicked:
		// the in-flight value was rolled back: it is the next value the consumer returns
		m.cur = 0
		simrt.Probe("range_callback_panicked")
	case err != nil:
		if err != context.Canceled {
			simrt.Failf("C02.range-error", "consumer %d: Range returned %v", k.id, err)
			return false
		}
		// Either the context check in front of the Get failed (nothing touched) or the Get itself failed
		// (Range's deferred Rollback then also returned any reads that were pending before the call); the
		// two are indistinguishable from outside when no callback ran, so normalise with a Rollback whose
		// result is not judged.
		if m.cur > 0 {
			r.rollback(k)
			m.cur = 0
		}
		simrt.Probe("range_ended_by_cancel")
	default:
		if op.kind == 4 && !stopped {
			simrt.Failf("C02.range-return", "consumer %d: package Range returned nil although the callback never returned false", k.id)
			return false
		}
	}
	if calls > 0 && m.cur != 0 && !panicked && !goexited {
		simrt.Failf("C02.range-model", "internal: model has %d pending reads after Range", m.cur)
		return false
	}
	if op.kind == 5 && !panicked && !goexited && err == nil && !stopped && r.stopInv == 0 {
		// Buffer.Range visited everything that had been put before it was called
		simrt.Probe("buffer_range_to_end")
		visited := map[Val]bool{}
		for v := range m.committed {
			visited[v] = true
		}
		for _, v := range m.known { // delivered earlier and still uncommitted: not owed again
			visited[v] = true
		}
		// ... and everything put before its last callback returned: the end-of-buffer decision is taken
		// after that, so those values were available "when it reached the end of the buffer"
		bound := rangeInv
		if lastFnRet > bound {
			bound = lastFnRet
			simrt.Probe("buffer_range_end_decision_after_callback")
		}
		for _, p := range r.puts {
			if p.ret != 0 && p.ret < bound {
				for _, v := range p.vals {
					if !visited[v] && c02Wanted(r, k, v) {
						simrt.Failf("C02.buffer-range-short", "consumer %d: Buffer.Range returned nil without visiting %v, which had been put before its last callback returned", k.id, v)
						return false
					}
				}
			}
		}
	}
	_ = inflight
	return true
}

// c02Wanted: v lies at or after the consumer's start (decided later, when the order is known, for
// values the consumer never saw: a consumer created after v was evicted does not owe a visit). The
// consumer owes v only if it has read some value put by an earlier-or-same Put of the same producer.
func c02Wanted(r *bufRun, k *bufCons, v Val) bool {
	for _, op := range k.ops {
		if op.kind == "get" && op.ok && op.v.P == v.P && op.v.Seq < v.Seq {
			return true
		}
	}
	return false
}

// c02Post checks the shared consumer's history for linearizability against the (committed, delta)
// model over absolute positions.
func c02Post(data any) (string, string, bool) {
	d := data.(*c02Data)
	for _, h := range d.shared {
		type st struct{ c, d int }
		model := oracle.Model{
			Init: func() any { return st{} },
			Step: func(state, in, out any) (bool, any) {
				s := state.(st)
				o := out.(c02Out)
				switch in.(string) {
				case "get":
					if !o.ok {
						return true, s
					}
					if h.pos[o.v]-h.base != s.c+s.d {
						return false, s
					}
					return true, st{s.c, s.d + 1}
				case "commit":
					if o.ok != (s.d > 0) {
						return false, s
					}
					if o.ok {
						return true, st{s.c + s.d, 0}
					}
					return true, s
				case "rollback":
					if o.ok != (s.d > 0) {
						return false, s
					}
					return true, st{s.c, 0}
				case "rollback-any": // a Rollback whose result nobody saw (made by Range on its way out)
					return true, st{s.c, 0}
				}
				return false, s
			},
			Equal: func(a, b any) bool { return a.(st) == b.(st) },
		}
		ok, timedOut := oracle.Linearizable(model, h.ops, 5*time.Second)
		if timedOut {
			return "", "", true
		}
		if !ok {
			msg := "the Get/Commit/Rollback history of a consumer shared by several goroutines has no sequential explanation consistent with real time:"
			for i, op := range h.ops {
				if i >= 40 {
					break
				}
				o := op.Out.(c02Out)
				pos := -1
				if o.ok && op.In.(string) == "get" {
					pos = h.pos[o.v] - h.base
				}
				msg += fmt.Sprintf("\n  task %d %s ok=%v pos=%d [%d,%d]", op.Client, op.In, o.ok, pos, op.Call, op.Return)
			}
			return "C02.shared-not-linearizable", msg, false
		}
	}
	return "", "", false
}

// c02Spy is a Consumer that passes everything on and notes what package Range did with it.
type c02Spy struct {
	bigbuff.Consumer
	getCalled    bool
	rbCalled     bool
	rbInv, rbRet int64
	rbErr        error
}

func (s *c02Spy) Get(ctx context.Context) (interface{}, error) {
	s.getCalled = true
	return s.Consumer.Get(ctx)
}

func (s *c02Spy) Rollback() error {
	s.rbCalled = true
	s.rbInv = simrt.Stamp()
	s.rbErr = s.Consumer.Rollback()
	s.rbRet = simrt.Stamp()
	return s.rbErr
}
