package harness

import (
	"context"
	"time"

	"bbsim/simrt"

	bigbuff "github.com/joeycumines/go-bigbuff"
)

var bg = context.Background()

// Val is the payload every harness puts through the library: unique per run, attributable to its
// producer, call and position in the call.
type Val struct {
	P, C, I int // producer, call, index in the call's batch
	Seq     int // position in the producer's program order (over all its calls)
}

var cooldowns = []time.Duration{0, time.Microsecond, time.Millisecond, 10 * time.Millisecond}

func drawCooldown() time.Duration { return cooldowns[simrt.Draw(len(cooldowns))] }

// pause is a drawn delay in front of an operation: nothing, a simulated sleep, or a scheduling stall.
type pause struct {
	kind int // 0 none, 1 sleep, 2 stall
	n    int
}

func drawPause() pause {
	switch simrt.Draw(6) {
	case 0, 1, 2:
		return pause{}
	case 3, 4:
		return pause{1, simrt.DrawRange(1, 12)}
	default:
		return pause{2, simrt.DrawRange(1, 30)}
	}
}

func (p pause) do(unit time.Duration) {
	switch p.kind {
	case 1:
		time.Sleep(time.Duration(p.n) * unit)
	case 2:
		simrt.Stall(p.n)
	}
}

func newBuffer(cleaner bigbuff.Cleaner, cooldown time.Duration) *bigbuff.Buffer {
	b := new(bigbuff.Buffer)
	if cleaner == nil {
		cleaner = bigbuff.DefaultCleaner
	}
	if err := b.SetCleanerConfig(bigbuff.CleanerConfig{Cleaner: cleaner, Cooldown: cooldown}); err != nil {
		simrt.Failf("setup", "SetCleanerConfig: %v", err)
	}
	return b
}
