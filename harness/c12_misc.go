package harness

import (
	"context"
	"sync"
	"time"

	"bbsim/simrt"

	bigbuff "github.com/joeycumines/go-bigbuff"
)

// ------------------------------------------------------------------------------------------------
// WaitCond waiters, including contexts that are never cancelled: once WaitCond has returned its
// watcher goroutine must be gone whatever happens to the caller's context.

type c12Waiter struct {
	kind     int // 0 nil ctx, 1 Background, 2 cancellable but never cancelled, 3 cancelled in the shutdown phase
	target   int
	ctx      context.Context
	cancel   context.CancelFunc
	p        pause
	returned bool
	err      error
}

type c12Cond struct {
	mu      sync.Mutex
	cond    *sync.Cond
	counter int
	incs    int
	ipause  []pause
	ws      []*c12Waiter
	setDone bool
}

func newC12Cond(r *c12Run) *c12Cond {
	x := &c12Cond{incs: simrt.DrawRange(0, 3)}
	x.cond = sync.NewCond(&x.mu)
	for i := 0; i < x.incs; i++ {
		x.ipause = append(x.ipause, drawPause())
	}
	for n := simrt.DrawRange(1, 3); n > 0; n-- {
		w := &c12Waiter{kind: []int{0, 1, 2, 2, 3, 3}[simrt.Draw(6)], p: drawPause()}
		switch w.kind {
		case 1:
			w.ctx = context.Background()
			w.target = simrt.DrawRange(0, x.incs)
		case 2:
			w.ctx, w.cancel = context.WithCancel(context.Background())
			w.target = simrt.DrawRange(0, x.incs)
			r.finals = append(r.finals, w.cancel) // only after the leak check
		case 3:
			w.ctx, w.cancel = context.WithCancel(context.Background())
			w.target = simrt.DrawRange(0, x.incs+1)
			r.addAction("cancel waitcond ctx", func() { simrt.Fault("ctx_cancel"); w.cancel() })
		default:
			w.target = simrt.DrawRange(0, x.incs)
		}
		x.ws = append(x.ws, w)
	}
	return x
}

func (x *c12Cond) start(r *c12Run) {
	for _, w := range x.ws {
		w := w
		go func() {
			w.p.do(c12Unit)
			x.mu.Lock()
			w.err = bigbuff.WaitCond(w.ctx, x.cond, func() bool { return x.counter >= w.target })
			x.mu.Unlock()
			w.returned = true
			if w.err == nil && (w.kind == 1 || w.kind == 2) {
				simrt.Probe("waitcond_returned_ctx_never_cancelled")
			}
		}()
	}
	go func() {
		defer func() { x.setDone = true }()
		for i := 0; i < x.incs; i++ {
			x.ipause[i].do(c12Unit)
			x.mu.Lock()
			x.counter++
			x.cond.Broadcast()
			x.mu.Unlock()
		}
	}()
}

func (x *c12Cond) verify(r *c12Run) bool {
	for i, w := range x.ws {
		if !w.returned {
			simrt.Failf("C12.call-stuck", "WaitCond waiter %d (kind %d, target %d, counter %d) has not returned at quiescence after the shutdown phase", i, w.kind, w.target, x.counter)
			return false
		}
	}
	return true
}

// ------------------------------------------------------------------------------------------------
// Context combinators

type c12Ctx struct {
	variant  int // 0 CombineContext, 1 ConflatedContext released by its own cancel, 2 ConflatedContext released by its inputs, 3 ChainAfterFunc
	nIn      int
	nilIn    []bool
	pre      []bool
	ins      []context.Context
	cancels  []context.CancelFunc
	res      context.Context
	own      context.CancelFunc
	watched  bool
	fCalls   int
	mustFire bool
}

func newC12Ctx(r *c12Run) *c12Ctx {
	x := &c12Ctx{variant: simrt.Draw(4)}
	switch x.variant {
	case 0:
		x.nIn = simrt.DrawRange(2, 3) // primary + others
	case 3:
		x.nIn = 2
	default:
		x.nIn = simrt.DrawRange(1, 3)
	}
	for i := 0; i < x.nIn; i++ {
		x.nilIn = append(x.nilIn, x.variant == 0 && i > 0 && simrt.Chance(1, 5))
		x.pre = append(x.pre, simrt.Chance(1, 8))
	}
	for i := 0; i < x.nIn; i++ {
		i := i
		if x.nilIn[i] {
			continue
		}
		cancelIn := func() { simrt.Fault("ctx_cancel"); x.cancels[i]() }
		if x.variant == 1 {
			// inputs stay alive until after the leak check: the result's own cancel must release everything
			r.finals = append(r.finals, func() { x.cancels[i]() })
		} else {
			r.addAction("cancel combinator input", cancelIn)
		}
	}
	switch x.variant {
	case 1:
		r.addAction("conflated own cancel", func() { simrt.Fault("ctx_cancel"); simrt.Probe("conflated_own_cancel"); x.own() })
	case 2:
		r.cleanup = append(r.cleanup, func() { x.own() })
	}
	return x
}

func (x *c12Ctx) start(r *c12Run) {
	x.ins = make([]context.Context, x.nIn)
	x.cancels = make([]context.CancelFunc, x.nIn)
	for i := range x.ins {
		if x.nilIn[i] {
			continue
		}
		x.ins[i], x.cancels[i] = context.WithCancel(context.Background())
		if x.pre[i] {
			simrt.Fault("ctx_cancel")
			x.cancels[i]()
		}
	}
	switch x.variant {
	case 0:
		x.res = bigbuff.CombineContext(x.ins[0], x.ins[1:]...)
	case 1, 2:
		x.res, x.own = bigbuff.ConflatedContext(x.ins...)
	case 3:
		bigbuff.ChainAfterFunc(x.ins[0], x.ins[1], func() { x.fCalls++ })
		return
	}
	go func() {
		<-x.res.Done()
		x.watched = true
	}()
}

func (x *c12Ctx) verify(r *c12Run) bool {
	switch x.variant {
	case 3:
		if x.fCalls != 1 {
			simrt.Failf("C12.call-stuck", "ChainAfterFunc: both contexts are cancelled and f ran %d times", x.fCalls)
			return false
		}
	default:
		if !x.watched {
			simrt.Failf("C12.call-stuck", "context combinator (variant %d): the result is not cancelled at quiescence although it was shut down", x.variant)
			return false
		}
	}
	return true
}

// ------------------------------------------------------------------------------------------------
// Notifier.SubscribeCancel

type c12Notif struct {
	n         bigbuff.Notifier
	target    chan int
	parent    context.Context
	pcancel   context.CancelFunc
	unsub     context.CancelFunc
	byParent  bool
	byUnsub   bool
	pctx      context.Context
	pubCancel context.CancelFunc
	pubs      int
	ppause    []pause
	stop      chan struct{}
	recvDone  bool
	pubDone   bool
	capT      int
}

func newC12Notif(r *c12Run) *c12Notif {
	x := &c12Notif{pubs: simrt.DrawRange(0, 3), capT: simrt.Draw(2)}
	for i := 0; i < x.pubs; i++ {
		x.ppause = append(x.ppause, drawPause())
	}
	switch simrt.Draw(3) {
	case 0:
		x.byParent = true
	case 1:
		x.byUnsub = true
	default:
		x.byParent, x.byUnsub = true, true
	}
	if x.byParent {
		r.addAction("cancel subscription parent ctx", func() { simrt.Fault("ctx_cancel"); x.pcancel() })
	}
	if x.byUnsub {
		r.addAction("subscription cancel", func() { simrt.Fault("ctx_cancel"); x.unsub() })
	} else {
		r.cleanup = append(r.cleanup, func() { x.unsub() })
	}
	r.addAction("cancel publish ctx", func() { simrt.Fault("ctx_cancel"); x.pubCancel() })
	r.addAction("stop receiver", func() { close(x.stop) })
	return x
}

func (x *c12Notif) start(r *c12Run) {
	x.target = make(chan int, x.capT)
	x.stop = make(chan struct{})
	if x.byParent {
		x.parent, x.pcancel = context.WithCancel(context.Background())
	}
	x.pctx, x.pubCancel = context.WithCancel(context.Background())
	x.unsub = x.n.SubscribeCancel(x.parent, "k", x.target)
	go func() {
		defer func() { x.recvDone = true }()
		for {
			select {
			case <-x.target:
			case <-x.stop:
				return
			}
		}
	}()
	go func() {
		defer func() { x.pubDone = true }()
		for i := 0; i < x.pubs; i++ {
			x.ppause[i].do(c12Unit)
			x.n.PublishContext(x.pctx, "k", i+1)
		}
	}()
}

func (x *c12Notif) verify(r *c12Run) bool {
	if !x.pubDone || !x.recvDone {
		simrt.Failf("C12.call-stuck", "Notifier: publisher done %v, receiver done %v at quiescence after the shutdown phase", x.pubDone, x.recvDone)
		return false
	}
	return true
}

// ------------------------------------------------------------------------------------------------
// Exclusive

type c12ExclCall struct {
	kind int // 0 Call, 1 CallAfter, 2 CallAsync read, 3 CallAsync not read, 4 Start, 5 rate limited
	key  int
	p    pause
	work pause
	wait time.Duration
	done bool
}

type c12Excl struct {
	e       bigbuff.Exclusive
	calls   []*c12ExclCall
	rctx    context.Context
	rcancel context.CancelFunc
}

func newC12Excl(r *c12Run) *c12Excl {
	x := &c12Excl{}
	limited := false
	for n := simrt.DrawRange(1, 3); n > 0; n-- {
		c := &c12ExclCall{kind: simrt.Draw(6), key: simrt.Draw(2), p: drawPause(), work: drawPause(), wait: time.Duration(simrt.DrawRange(0, 4)) * c12Unit}
		if c.kind == 5 {
			limited = true
		}
		x.calls = append(x.calls, c)
	}
	if limited {
		x.rctx, x.rcancel = context.WithCancel(context.Background())
		if simrt.Chance(1, 2) {
			r.addAction("cancel rate limit ctx", func() { simrt.Fault("ctx_cancel"); x.rcancel() })
		} else {
			r.cleanup = append(r.cleanup, func() { x.rcancel() })
		}
	}
	return x
}

func (x *c12Excl) start(r *c12Run) {
	for _, c := range x.calls {
		c := c
		fn := func() (interface{}, error) {
			c.work.do(c12Unit)
			return c.key, nil
		}
		go func() {
			defer func() { c.done = true }()
			c.p.do(c12Unit)
			switch c.kind {
			case 0:
				_, _ = x.e.Call(c.key, fn)
			case 1:
				_, _ = x.e.CallAfter(c.key, fn, c.wait)
			case 2:
				<-x.e.CallAsync(c.key, fn)
			case 3:
				_ = x.e.CallAfterAsync(c.key, fn, c.wait)
			case 4:
				x.e.Start(c.key, fn)
			default:
				<-x.e.CallWithOptions(bigbuff.ExclusiveKey(c.key), bigbuff.ExclusiveValue(fn), bigbuff.ExclusiveRateLimit(x.rctx, c.wait+c12Unit))
			}
		}()
	}
}

func (x *c12Excl) verify(r *c12Run) bool {
	for i, c := range x.calls {
		if !c.done {
			simrt.Failf("C12.call-stuck", "Exclusive call %d (kind %d) has not returned at quiescence", i, c.kind)
			return false
		}
	}
	return true
}

// ------------------------------------------------------------------------------------------------
// Workers

type c12Workers struct {
	w      bigbuff.Workers
	counts []int
	ps     []pause
	works  []pause
	done   int
	waitP  pause
	waited bool
}

func newC12Workers(r *c12Run) *c12Workers {
	x := &c12Workers{waitP: drawPause()}
	for n := simrt.DrawRange(1, 4); n > 0; n-- {
		x.counts = append(x.counts, simrt.DrawRange(1, 2))
		x.ps = append(x.ps, drawPause())
		x.works = append(x.works, drawPause())
	}
	return x
}

func (x *c12Workers) start(r *c12Run) {
	for i := range x.counts {
		i := i
		go func() {
			x.ps[i].do(c12Unit)
			_, _ = x.w.Call(x.counts[i], func() (interface{}, error) {
				x.works[i].do(c12Unit)
				return i, nil
			})
			x.done++
		}()
	}
	go func() {
		x.waitP.do(c12Unit)
		x.w.Wait()
		x.waited = true
	}()
}

func (x *c12Workers) verify(r *c12Run) bool {
	if x.done != len(x.counts) || !x.waited {
		simrt.Failf("C12.call-stuck", "Workers: %d of %d calls returned, Wait returned %v at quiescence", x.done, len(x.counts), x.waited)
		return false
	}
	return true
}

// ------------------------------------------------------------------------------------------------
// Worker

type c12Worker struct {
	x     bigbuff.Worker
	ps    []pause
	holds []pause
	done  int
}

func newC12Worker(r *c12Run) *c12Worker {
	x := &c12Worker{}
	for n := simrt.DrawRange(1, 3); n > 0; n-- {
		x.ps = append(x.ps, drawPause())
		x.holds = append(x.holds, drawPause())
	}
	return x
}

func (x *c12Worker) start(r *c12Run) {
	for i := range x.ps {
		i := i
		go func() {
			x.ps[i].do(c12Unit)
			done := x.x.Do(func(stop <-chan struct{}) { <-stop })
			x.holds[i].do(c12Unit)
			done()
			x.done++
		}()
	}
}

func (x *c12Worker) verify(r *c12Run) bool {
	if x.done != len(x.ps) {
		simrt.Failf("C12.call-stuck", "Worker: %d of %d Do/done pairs completed at quiescence", x.done, len(x.ps))
		return false
	}
	return true
}

// ------------------------------------------------------------------------------------------------
// LinearAttempt

type c12Attempt struct {
	ctx      context.Context
	cancel   context.CancelFunc
	rate     time.Duration
	count    int
	take     int
	ps       []pause
	recvDone bool
}

func newC12Attempt(r *c12Run) *c12Attempt {
	x := &c12Attempt{rate: []time.Duration{300 * time.Microsecond, time.Millisecond}[simrt.Draw(2)], count: simrt.DrawRange(1, 4)}
	x.take = simrt.DrawRange(0, x.count+1)
	for i := 0; i <= x.take; i++ {
		x.ps = append(x.ps, drawPause())
	}
	r.addAction("cancel attempt ctx", func() { simrt.Fault("ctx_cancel"); x.cancel() })
	return x
}

func (x *c12Attempt) start(r *c12Run) {
	x.ctx, x.cancel = context.WithCancel(context.Background())
	ch := bigbuff.LinearAttempt(x.ctx, x.rate, x.count)
	go func() {
		defer func() { x.recvDone = true }()
		for i := 0; i < x.take; i++ {
			x.ps[i].do(c12Unit)
			if _, ok := <-ch; !ok {
				return
			}
		}
	}()
}

func (x *c12Attempt) verify(r *c12Run) bool {
	if !x.recvDone {
		simrt.Failf("C12.call-stuck", "LinearAttempt: the receiver is still blocked at quiescence after the context was cancelled")
		return false
	}
	return true
}
