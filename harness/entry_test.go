package harness

import (
	"bufio"
	"encoding/json"
	"flag"
	"fmt"
	"os"
	"sort"
	"strings"
	"testing"
	"testing/synctest"
	"time"

	"bbsim/simrt"
)

var (
	fProp     = flag.String("prop", "", "property id")
	fSeed     = flag.Uint64("seed", 1, "base seed (VERIF_SEED)")
	fFrom     = flag.Int("from", 0, "first run index")
	fStride   = flag.Int("stride", 1, "run index stride")
	fCount    = flag.Int("count", 100, "number of runs for this worker")
	fWall     = flag.Float64("wall", 0, "wall-clock cap in seconds (0 = none)")
	fOut      = flag.String("out", "", "result file (JSON lines)")
	fReplay   = flag.String("replay", "", "replay file to execute instead of seeded runs")
	fReplays  = flag.String("replaydir", "/verif/replays", "where violation replay files are written")
	fMaxViol  = flag.Int("maxviol", 3, "stop after this many violations")
	fKnown    = flag.String("known", "", "JSON file: known findings of this property [{check,harness,message_contains}]; a run matching one is counted, written once per worker, and does not stop the worker")
	fDetEvery = flag.Int("detevery", 64, "re-execute every n-th run and compare trace hashes")
	fMinimize = flag.Int("minimize", 1500, "re-execution budget for minimisation")
	fSteps    = flag.Int("maxsteps", 200000, "step budget per run")
	fVerbose  = flag.Bool("v2", false, "print per-run lines")
	fTier     = flag.String("tier", "quick", "quick|thorough: thorough doubles the size bounds of half of the runs")
	fHang     = flag.Int("hang", 30, "wall-clock seconds after which a single run counts as hung (a loop without any scheduling point)")
)

// Knobs are the per-run swarm parameters of the scheduler; they are derived from the run seed and
// stored in replay files.
type Knobs struct {
	Strategy  int     `json:"strategy"`
	StayProb  float64 `json:"stay_prob"`
	TimerProb float64 `json:"timer_prob"`
	PCTDepth  int     `json:"pct_depth"`
	PCTLen    int     `json:"pct_len"`
	Big       bool    `json:"big"`
}

func knobsFor(seed uint64) Knobs {
	r := simrt.NewRNG(seed ^ 0xABCDEF)
	k := Knobs{}
	switch x := r.Intn(10); {
	case x < 3:
		k.Strategy = 0
	case x < 7:
		k.Strategy = 1
		k.StayProb = 0.7 + 0.27*r.Float64()
	default:
		k.Strategy = 2
		k.PCTDepth = 1 + r.Intn(4)
		k.PCTLen = []int{50, 200, 1000, 4000}[r.Intn(4)]
	}
	k.TimerProb = []float64{0.02, 0.05, 0.1, 0.25, 0.5}[r.Intn(5)]
	k.Big = *fTier == "thorough" && r.Intn(2) == 0
	return k
}

// ReplayFile is everything needed to re-execute one run exactly.
type ReplayFile struct {
	Property  string         `json:"property"`
	Harness   string         `json:"harness"`
	Seed      uint64         `json:"verif_seed"`
	RunIndex  int            `json:"run_index"`
	RunSeed   uint64         `json:"run_seed"`
	Knobs     Knobs          `json:"knobs"`
	Prog      []uint32       `json:"program_choices"`
	Sched     []uint32       `json:"schedule_choices"`
	Check     string         `json:"check"`
	Message   string         `json:"message"`
	Hash      string         `json:"trace_hash"`
	Steps     int            `json:"steps"`
	Faults    map[string]int `json:"faults_fired"`
	Trace     []simrt.Event  `json:"trace"`
	Logs      []string       `json:"log"`
	Minimised struct {
		Executions int `json:"executions"`
		ProgFrom   int `json:"program_len_before"`
		SchedFrom  int `json:"schedule_len_before"`
	} `json:"minimised"`
}

type outcome struct {
	res          *simrt.Result
	check        string // "" = held
	msg          string
	prog         []uint32
	sched        []uint32
	inconclusive bool
}

func execute(t *testing.T, h Harness, k Knobs, prog, sched *simrt.Stream, keep int) outcome {
	var res *simrt.Result
	cfg := simrt.Config{Strategy: k.Strategy, StayProb: k.StayProb, TimerProb: k.TimerProb, PCTDepth: k.PCTDepth, PCTLen: k.PCTLen,
		MaxSteps: *fSteps, KeepEvents: keep, Big: k.Big}
	// A goroutine of its own: synctest.Test ends the calling goroutine (t.FailNow) when the testing
	// package notices a race-detector report during the bubble, and panics when tasks are left
	// blocked at the end of the bubble.
	done := make(chan struct{})
	// hang watchdog: the run has not taken a single scheduling step for *fHang seconds of wall-clock time
	// (a loop without any scheduling point). Measured on progress, not on the duration of the run, so
	// that a slow run on a loaded machine is not mistaken for a hang.
	wdStop := make(chan struct{})
	go func() {
		last, since := simrt.Progress(), time.Now()
		tick := time.NewTicker(time.Second)
		defer tick.Stop()
		for {
			select {
			case <-wdStop:
				return
			case <-tick.C:
				if p := simrt.Progress(); p != last {
					last, since = p, time.Now()
				} else if time.Since(since) > time.Duration(*fHang)*time.Second {
					hangExit(h, k, prog, sched)
					return
				}
			}
		}
	}()
	defer close(wdStop)
	go func() {
		defer close(done)
		defer func() { _ = recover() }()
		synctest.Test(t, func(t *testing.T) {
			res = simrt.Run(cfg, prog, sched, h.Run)
		})
	}()
	<-done
	o := outcome{res: res, prog: append([]uint32(nil), prog.Used()...), sched: append([]uint32(nil), sched.Used()...)}
	if simrt.RaceEnabled {
		if rep, libRace, harnessOnly := newRaceReports(); libRace {
			o.check, o.msg = "C11.data-race", rep
			return o
		} else if harnessOnly > 0 && res != nil {
			res.Anomalies["race_report_harness_frames_only"] += harnessOnly
		}
	}
	if res == nil {
		o.check, o.msg = "infrastructure", "simulation did not return a result"
		return o
	}
	switch {
	case res.Fail != nil:
		o.check, o.msg = res.Fail.Check, res.Fail.Msg
	case res.Aborted == "" && h.Post != nil && res.Data != nil:
		var inc bool
		o.check, o.msg, inc = h.Post(res.Data)
		if inc {
			o.check, o.msg = "", ""
			o.inconclusive = true
		}
	case res.Aborted == "deadlock":
		harnessBlocked := false
		desc := ""
		for _, l := range res.Leftover {
			if !l.Lib {
				harnessBlocked = true
			}
			desc += fmt.Sprintf(" [task %d %s %s on %s]", l.ID, l.Name, l.State, l.On)
		}
		if harnessBlocked && !h.DeadlockOK {
			o.check, o.msg = "deadlock", "no task can run, no timer is pending, and calls have not returned:"+desc
		}
	case res.Aborted == "budget":
		if !h.LivelockOK {
			desc := ""
			for _, l := range res.Leftover {
				desc += fmt.Sprintf(" [task %d %s %s on %s]", l.ID, l.Name, l.State, l.On)
			}
			o.check, o.msg = "livelock", fmt.Sprintf("step budget of %d exhausted under the fair scheduler; tasks still there:%s", *fSteps, desc)
		}
	}
	return o
}

type summary struct {
	Kind        string         `json:"kind"`
	Prop        string         `json:"prop"`
	Runs        int            `json:"runs"`
	Steps       int64          `json:"steps"`
	SimTimeNs   int64          `json:"sim_time_ns"`
	Switches    int64          `json:"switches"`
	TimersFired int64          `json:"timers_fired"`
	Probes      map[string]int `json:"probes"`
	Faults      map[string]int `json:"faults"`
	Anomalies   map[string]int `json:"anomalies"`
	PerHarness  map[string]int `json:"per_harness"`
	Strategies  map[string]int `json:"strategies"`
	Hashes      []string       `json:"nontrivial_hashes"`
	Nontrivial  int            `json:"nontrivial_runs"`
	SwitchPairs map[string]int `json:"switch_pairs"`
	DetChecks   int            `json:"determinism_rechecks"`
	DetFail     []string       `json:"determinism_failures"`
	Violations  int            `json:"violations"`
	KnownRuns   int            `json:"known_finding_runs"`
	MaxSteps    int            `json:"max_steps_in_a_run"`
	WallS       float64        `json:"wall_s"`
	Samples     []any          `json:"samples"`
	Inconcl     int            `json:"inconclusive"`
}

func addMap(dst, src map[string]int) {
	for k, v := range src {
		dst[k] += v
	}
}

func pickHarness(hs []Harness, seed uint64) Harness {
	tot := 0
	for _, h := range hs {
		tot += h.Weight
	}
	x := int(simrt.Mix(seed, 77) % uint64(tot))
	for _, h := range hs {
		if x < h.Weight {
			return h
		}
		x -= h.Weight
	}
	return hs[0]
}

func TestWorker(t *testing.T) {
	if *fProp == "" && *fReplay == "" {
		t.Skip("no -prop")
	}
	if *fReplay != "" {
		replayMain(t)
		return
	}
	hs := For(*fProp)
	if len(hs) == 0 {
		fmt.Printf("INFRA no harness for %s\n", *fProp)
		os.Exit(2)
	}
	var out *bufio.Writer
	if *fOut != "" {
		f, err := os.Create(*fOut)
		if err != nil {
			fmt.Println("INFRA", err)
			os.Exit(2)
		}
		defer f.Close()
		out = bufio.NewWriter(f)
		defer out.Flush()
	}
	emit := func(v any) {
		b, _ := json.Marshal(v)
		if out != nil {
			out.Write(b)
			out.WriteByte('\n')
			out.Flush()
		} else {
			fmt.Println(string(b))
		}
	}
	start := time.Now()
	sum := summary{Kind: "summary", Prop: *fProp, Probes: map[string]int{}, Faults: map[string]int{}, Anomalies: map[string]int{},
		PerHarness: map[string]int{}, Strategies: map[string]int{}, SwitchPairs: map[string]int{}}
	hashes := map[uint64]bool{}
	known := loadKnownFile(*fKnown)
	knownSeen := map[int]bool{}
	for n := 0; n < *fCount; n++ {
		if *fWall > 0 && time.Since(start).Seconds() > *fWall {
			break
		}
		idx := *fFrom + n**fStride
		runSeed := simrt.Mix(*fSeed, uint64(idx))
		h := pickHarness(hs, runSeed)
		k := knobsFor(runSeed)
		hangCtx.idx, hangCtx.runSeed, hangCtx.emit = idx, runSeed, emit
		keep := 0
		if len(sum.Samples) < 2 {
			keep = 60
		}
		o := execute(t, h, k, simrt.NewStream(simrt.Mix(runSeed, 1)), simrt.NewStream(simrt.Mix(runSeed, 2)), keep)
		sum.Runs++
		sum.PerHarness[h.Name]++
		sum.Strategies[[]string{"uniform", "run-long", "pct"}[k.Strategy]]++
		if o.inconclusive {
			sum.Inconcl++
		}
		if o.check == "infrastructure" {
			emit(map[string]any{"kind": "infra", "msg": o.msg, "run_index": idx})
			sum.DetFail = append(sum.DetFail, fmt.Sprintf("run %d: %s", idx, o.msg))
			continue
		}
		r := o.res
		sum.Steps += int64(r.Steps)
		sum.SimTimeNs += int64(r.SimTime)
		sum.Switches += int64(r.Switches)
		sum.TimersFired += int64(r.TimersFired)
		if r.Steps > sum.MaxSteps {
			sum.MaxSteps = r.Steps
		}
		addMap(sum.Probes, r.Probes)
		addMap(sum.Faults, r.Faults)
		addMap(sum.Anomalies, r.Anomalies)
		if r.Aborted != "" {
			sum.Anomalies["aborted_"+r.Aborted]++
		}
		if len(sum.SwitchPairs) < 3000 {
			addMap(sum.SwitchPairs, r.SwitchPairs)
		}
		nfaults := 0
		for _, v := range r.Faults {
			nfaults += v
		}
		nprobes := 0
		for _, v := range r.Probes {
			nprobes += v
		}
		if r.Tasks >= 2 && r.Switches >= 2 && nfaults+nprobes > 0 {
			sum.Nontrivial++
			if !hashes[r.Hash] && len(hashes) < 200000 {
				hashes[r.Hash] = true
			}
		}
		if keep > 0 && o.check == "" {
			sum.Samples = append(sum.Samples, map[string]any{
				"harness": h.Name, "run_index": idx, "run_seed": runSeed, "knobs": k, "program_choices": o.prog,
				"schedule_choices_len": len(o.sched), "steps": r.Steps, "tasks": r.Tasks, "faults": r.Faults, "probes": r.Probes,
				"first_events": r.Events, "log": firstN(r.Logs, 40),
			})
		}
		if *fVerbose {
			fmt.Printf("run %d %s steps=%d hash=%x check=%q\n", idx, h.Name, r.Steps, r.Hash, o.check)
		}
		// determinism re-check
		if *fDetEvery > 0 && n%*fDetEvery == 0 {
			o2 := execute(t, h, k, simrt.ReplayStream(o.prog), simrt.ReplayStream(o.sched), 0)
			sum.DetChecks++
			if o2.res == nil || o2.res.Hash != r.Hash || (o2.check != o.check && !simrt.RaceEnabled) {
				h2 := uint64(0)
				if o2.res != nil {
					h2 = o2.res.Hash
				}
				sum.DetFail = append(sum.DetFail, fmt.Sprintf("run %d (%s): hash %x vs %x, check %q vs %q", idx, h.Name, r.Hash, h2, o.check, o2.check))
			}
		}
		if ki := matchKnown(known, h.Name, o.check, o.msg); ki >= 0 {
			// a listed finding: counted; its first occurrence in this worker is written out so that the
			// driver can re-verify it and print the KNOWN-FINDING line; the worker carries on
			sum.KnownRuns++
			if knownSeen[ki] {
				continue
			}
			knownSeen[ki] = true
			rf := buildReplay(t, h, k, idx, runSeed, o)
			path := fmt.Sprintf("%s/%s-%d-%d.json", *fReplays, *fProp, *fSeed, idx)
			b, _ := json.MarshalIndent(rf, "", " ")
			if err := os.WriteFile(path, b, 0o644); err != nil {
				fmt.Println("INFRA", err)
			}
			emit(map[string]any{"kind": "violation", "prop": *fProp, "harness": h.Name, "check": rf.Check, "msg": rf.Message, "replay": path, "run_index": idx})
			continue
		}
		if o.check != "" {
			sum.Violations++
			rf := buildReplay(t, h, k, idx, runSeed, o)
			path := fmt.Sprintf("%s/%s-%d-%d.json", *fReplays, *fProp, *fSeed, idx)
			b, _ := json.MarshalIndent(rf, "", " ")
			if err := os.WriteFile(path, b, 0o644); err != nil {
				fmt.Println("INFRA", err)
			}
			emit(map[string]any{"kind": "violation", "prop": *fProp, "harness": h.Name, "check": rf.Check, "msg": rf.Message, "replay": path, "run_index": idx})
			if sum.Violations >= *fMaxViol {
				break
			}
		}
	}
	for h := range hashes {
		sum.Hashes = append(sum.Hashes, fmt.Sprintf("%x", h))
	}
	sort.Strings(sum.Hashes)
	sum.WallS = time.Since(start).Seconds()
	emit(sum)
}

// race detector reports are appended to $BBSIM_RACELOG.<pid>; newRaceReports returns the reports
// written since the last call that involve library code or the payload accessors.
var raceLogOff int64

func newRaceReports() (string, bool, int) {
	prefix := os.Getenv("BBSIM_RACELOG")
	if prefix == "" {
		return "", false, 0
	}
	path := fmt.Sprintf("%s.%d", prefix, os.Getpid())
	b, err := os.ReadFile(path)
	if err != nil || int64(len(b)) <= raceLogOff {
		return "", false, 0
	}
	txt := string(b[raceLogOff:])
	raceLogOff = int64(len(b))
	lib, harnessOnly := "", 0
	for _, blk := range strings.Split(txt, "==================") {
		if !strings.Contains(blk, "DATA RACE") {
			continue
		}
		tops := raceTopFrames(blk)
		simInternal, libFrame, wr, rd := false, false, 0, 0
		for _, f := range tops {
			switch {
			case strings.HasPrefix(f, "bbsim/simrt.") || strings.HasPrefix(f, "bbsim/shim/"):
				simInternal = true
			case strings.HasPrefix(f, "bbsimrun/bigbuff.") || strings.HasPrefix(f, "bbsimrun/simctx."):
				libFrame = true
			case strings.HasPrefix(f, "bbsimrun/harness.c11Write"):
				wr++
			case strings.HasPrefix(f, "bbsimrun/harness.c11Read"):
				rd++
			}
		}
		switch {
		case simInternal || len(tops) < 2:
			// an access to simulator state (maps and slice growth are checked inside the runtime
			// whatever the compile flags): not the program's memory
			harnessOnly++
		case libFrame || (wr >= 1 && wr+rd >= 2):
			if lib == "" {
				lib = trimRace(blk)
			}
		default:
			harnessOnly++
		}
	}
	return lib, lib != "", harnessOnly
}

// raceTopFrames returns, for each of the two accesses of a report, the first frame that is not in
// the runtime: the code that performed the access.
func raceTopFrames(blk string) []string {
	var tops []string
	lines := strings.Split(blk, "\n")
	for i := 0; i < len(lines); i++ {
		t := strings.TrimSpace(lines[i])
		isHdr := (strings.HasPrefix(t, "Read at ") || strings.HasPrefix(t, "Write at ") || strings.HasPrefix(t, "Previous read at ") ||
			strings.HasPrefix(t, "Previous write at ") || strings.HasPrefix(t, "Atomic ") || strings.HasPrefix(t, "Previous atomic ")) && strings.HasSuffix(t, ":")
		if !isHdr {
			continue
		}
		for j := i + 1; j < len(lines); j++ {
			f := strings.TrimSpace(lines[j])
			if f == "" {
				break
			}
			if strings.HasPrefix(f, "/") || strings.HasPrefix(f, "<autogenerated>") {
				continue
			}
			if strings.HasPrefix(f, "runtime.") || strings.HasPrefix(f, "internal/") || strings.HasPrefix(f, "reflect.") || strings.HasPrefix(f, "sync/atomic.") {
				continue
			}
			// a library closure inlined into its caller carries the caller's function name
			// (harness.X.ExclusiveValue.func3): the file the code is in tells whose code it is
			if j+1 < len(lines) {
				if file := strings.TrimSpace(lines[j+1]); strings.HasPrefix(file, "/") {
					switch {
					case strings.Contains(file, "/bbsimrun/bigbuff/") || strings.Contains(file, "/bigbuff/") && !strings.Contains(file, "/harness/"):
						f = "bbsimrun/bigbuff." + f
					case strings.Contains(file, "/simctx/"):
						f = "bbsimrun/simctx." + f
					}
				}
			}
			tops = append(tops, f)
			break
		}
	}
	return tops
}

func trimRace(blk string) string {
	var out []string
	for _, l := range strings.Split(blk, "\n") {
		t := strings.TrimSpace(l)
		if t == "" {
			continue
		}
		if strings.HasPrefix(t, "/") {
			// keep file:line, drop the scratch directory
			if k := strings.Index(t, "/bbsim-"); k >= 0 {
				if j := strings.Index(t[k+1:], "/"); j >= 0 {
					t = t[k+1+j+1:]
				}
			}
			if k := strings.Index(t, " +0x"); k >= 0 {
				t = t[:k]
			}
			if len(out) > 0 {
				out[len(out)-1] += "  @" + t
			}
			continue
		}
		out = append(out, t)
		if len(out) > 40 {
			break
		}
	}
	return strings.Join(out, "\n")
}

// hangCtx is what hangExit needs to describe the run in progress.
var hangCtx struct {
	idx      int
	runSeed  uint64
	emit     func(v any)
	replay   bool
	expected string
}

// hangExit is called by the per-run watchdog: the run has been executing for far longer than any
// simulated run can (a task is spinning without ever reaching a scheduling point, so the simulator
// cannot take the baton back). The choice vectors consumed so far identify the run; the process
// cannot continue and exits.
func hangExit(h Harness, k Knobs, prog, sched *simrt.Stream) {
	msg := "a task has been running for " + fmt.Sprint(*fHang) + " s of wall-clock time without reaching any scheduling point (busy loop): the call never returns and never blocks"
	if hangCtx.replay {
		res := map[string]any{"kind": "replay", "check": "hang", "msg": msg, "hash": "", "expected_check": hangCtx.expected, "expected_hash": "",
			"same": hangCtx.expected == "hang"}
		b, _ := json.Marshal(res)
		fmt.Println(string(b))
		os.Exit(3)
	}
	rf := &ReplayFile{Property: h.Prop, Harness: h.Name, Seed: *fSeed, RunIndex: hangCtx.idx, RunSeed: hangCtx.runSeed, Knobs: k,
		Prog: append([]uint32(nil), prog.Used()...), Sched: append([]uint32(nil), sched.Used()...), Check: "hang", Message: msg}
	path := fmt.Sprintf("%s/%s-%d-%d.json", *fReplays, h.Prop, *fSeed, hangCtx.idx)
	b, _ := json.MarshalIndent(rf, "", " ")
	os.WriteFile(path, b, 0o644)
	if hangCtx.emit != nil {
		hangCtx.emit(map[string]any{"kind": "violation", "prop": h.Prop, "harness": h.Name, "check": "hang", "msg": msg, "replay": path, "run_index": hangCtx.idx})
		hangCtx.emit(map[string]any{"kind": "summary", "prop": h.Prop, "runs": 1, "violations": 1})
	}
	os.Exit(3)
}

func firstN(s []string, n int) []string {
	if len(s) > n {
		return s[:n]
	}
	return s
}

// buildReplay minimises the failing run (program stream first, then schedule stream), keeping a
// candidate only if the same check of the same harness fails, and returns the replay record of the
// minimised run.
func buildReplay(t *testing.T, h Harness, k Knobs, idx int, runSeed uint64, o outcome) *ReplayFile {
	prog, sched := o.prog, o.sched
	budget := *fMinimize
	if simrt.RaceEnabled {
		budget = 0 // the detector reports each distinct race once per process: re-execution cannot confirm it
	}
	execs := 0
	try := func(p, s []uint32) (outcome, bool) {
		if execs >= budget {
			return outcome{}, false
		}
		execs++
		o2 := execute(t, h, k, simrt.ReplayStream(p), simrt.ReplayStream(s), 0)
		return o2, o2.check == o.check
	}
	best := o
	shrink := func(vec []uint32, isProg bool) []uint32 {
		cur := append([]uint32(nil), vec...)
		apply := func(c []uint32) bool {
			var o2 outcome
			var ok bool
			if isProg {
				o2, ok = try(c, sched)
			} else {
				o2, ok = try(prog, c)
			}
			if ok {
				best = o2
				if isProg {
					// the schedule actually consumed may differ; keep what was used
					sched = o2.sched
				}
			}
			return ok
		}
		// 1. truncate (missing entries read as 0)
		for len(cur) > 0 && execs < budget {
			c := cur[:len(cur)/2]
			if apply(c) {
				cur = append([]uint32(nil), c...)
			} else {
				break
			}
		}
		// 2. zero blocks of decreasing size (ddmin flavour)
		for size := len(cur); size >= 1 && execs < budget; size /= 2 {
			for at := 0; at < len(cur) && execs < budget; at += size {
				end := at + size
				if end > len(cur) {
					end = len(cur)
				}
				allZero := true
				for _, v := range cur[at:end] {
					if v != 0 {
						allZero = false
					}
				}
				if allZero {
					continue
				}
				c := append([]uint32(nil), cur...)
				for i := at; i < end; i++ {
					c[i] = 0
				}
				if apply(c) {
					cur = c
				}
			}
			if size == 1 {
				break
			}
		}
		// 3. drop trailing zeros, lower single values
		for len(cur) > 0 && cur[len(cur)-1] == 0 {
			cur = cur[:len(cur)-1]
		}
		for i := 0; i < len(cur) && execs < budget; i++ {
			for cur[i] > 0 && execs < budget {
				c := append([]uint32(nil), cur...)
				c[i] = cur[i] / 2
				if apply(c) {
					cur = c
				} else {
					break
				}
			}
		}
		return cur
	}
	progBefore, schedBefore := len(prog), len(sched)
	if budget > 0 {
		prog = shrink(prog, true)
		sched = shrink(sched, false)
	}
	// final execution with the trace kept
	final := execute(t, h, k, simrt.ReplayStream(prog), simrt.ReplayStream(sched), 4000)
	if simrt.RaceEnabled && final.check == "" {
		final.check, final.msg = o.check, o.msg
	}
	if final.check != o.check {
		// minimisation went wrong somewhere: fall back to the original vectors
		prog, sched = o.prog, o.sched
		final = execute(t, h, k, simrt.ReplayStream(prog), simrt.ReplayStream(sched), 4000)
	}
	_ = best
	rf := &ReplayFile{Property: h.Prop, Harness: h.Name, Seed: *fSeed, RunIndex: idx, RunSeed: runSeed, Knobs: k,
		Prog: prog, Sched: sched, Check: final.check, Message: final.msg}
	if final.res != nil {
		rf.Hash = fmt.Sprintf("%x", final.res.Hash)
		rf.Steps = final.res.Steps
		rf.Faults = final.res.Faults
		rf.Trace = final.res.Events
		rf.Logs = final.res.Logs
	}
	rf.Minimised.Executions = execs
	rf.Minimised.ProgFrom = progBefore
	rf.Minimised.SchedFrom = schedBefore
	return rf
}

func replayMain(t *testing.T) {
	b, err := os.ReadFile(*fReplay)
	if err != nil {
		fmt.Println("INFRA", err)
		os.Exit(2)
	}
	var rf ReplayFile
	if err := json.Unmarshal(b, &rf); err != nil {
		fmt.Println("INFRA", err)
		os.Exit(2)
	}
	var h *Harness
	for _, x := range For(rf.Property) {
		if x.Name == rf.Harness {
			x := x
			h = &x
		}
	}
	if h == nil {
		fmt.Println("INFRA unknown harness", rf.Harness)
		os.Exit(2)
	}
	hangCtx.replay, hangCtx.expected = true, rf.Check
	o := execute(t, *h, rf.Knobs, simrt.ReplayStream(rf.Prog), simrt.ReplayStream(rf.Sched), 4000)
	hash := ""
	if o.res != nil {
		hash = fmt.Sprintf("%x", o.res.Hash)
	}
	res := map[string]any{"kind": "replay", "check": o.check, "msg": o.msg, "hash": hash, "expected_check": rf.Check, "expected_hash": rf.Hash,
		"same": o.check == rf.Check && hash == rf.Hash}
	bb, _ := json.Marshal(res)
	fmt.Println(string(bb))
	if *fVerbose && o.res != nil {
		for _, e := range o.res.Events {
			fmt.Printf("  step %d task %d %s %s\n", e.Step, e.Task, e.Kind, e.Site)
		}
		for _, l := range o.res.Logs {
			fmt.Println("  log:", l)
		}
	}
	if *fOut != "" {
		os.WriteFile(*fOut, bb, 0o644)
	}
}

type knownEntry struct {
	Check    string `json:"check"`
	Harness  string `json:"harness"`
	Contains string `json:"message_contains"`
}

func loadKnownFile(path string) []knownEntry {
	if path == "" {
		return nil
	}
	b, err := os.ReadFile(path)
	if err != nil {
		fmt.Println("INFRA", err)
		return nil
	}
	var v []knownEntry
	if err := json.Unmarshal(b, &v); err != nil {
		fmt.Println("INFRA", err)
		return nil
	}
	return v
}

func matchKnown(known []knownEntry, harness, check, msg string) int {
	if check == "" {
		return -1
	}
	for i, k := range known {
		if k.Check == check && (k.Harness == "" || k.Harness == harness) && (k.Contains == "" || strings.Contains(msg, k.Contains)) {
			return i
		}
	}
	return -1
}
