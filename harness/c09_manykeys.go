package harness

import (
	"fmt"

	"bbsim/simrt"

	bigbuff "github.com/joeycumines/go-bigbuff"
)

// C09/many-keys: key A with a long-running work function (held by a gate of the harness) and a second
// call waiting behind it; then 0..40 other keys that come and go, one complete call each; then key B in
// the same state as A. B's work is released first (or A's, drawn): the calls of the released key, the
// waiting one included, finish while the other key's work function is still running. Whatever an
// Exclusive keeps per key, it keeps it per key for any number of keys it has seen before.
func init() {
	Register(Harness{Prop: "C09", Name: "C09/many-keys", Run: c09ManyKeys, Weight: 1})
}

func c09ManyKeys() {
	var e bigbuff.Exclusive
	type side struct {
		key              any
		gate             chan struct{}
		running          int
		overlap          bool
		firstStarted     bool
		firstRet, secRet bool
		execs            int
	}
	mk := func(key any) *side { return &side{key: key, gate: make(chan struct{})} }
	open := func(s *side) {
		go func() {
			e.Call(s.key, func() (interface{}, error) {
				s.execs++
				if s.running++; s.running > 1 {
					s.overlap = true
				}
				s.firstStarted = true
				<-s.gate
				s.running--
				return 1, nil
			})
			s.firstRet = true
		}()
		simrt.Quiesce(-1)
		go func() {
			e.Call(s.key, func() (interface{}, error) {
				s.execs++
				if s.running++; s.running > 1 {
					s.overlap = true
				}
				simrt.Stall(simrt.Draw(3))
				s.running--
				return 2, nil
			})
			s.secRet = true
		}()
		simrt.Quiesce(-1)
	}
	// two keys that differ as interface values are two keys, however alike they look
	type p1 struct{ x int }
	type p2 struct{ x int }
	type named string
	pairs := [][2]any{
		{"A", "B"}, {"A", "B"}, {"A", "B"},
		{nil, (*p1)(nil)},
		{(*p1)(nil), (*p2)(nil)},
		{1, int64(1)},
		{"1", 1},
		{"A", named("A")},
		{p1{1}, p2{1}},
		{&p1{1}, &p1{1}},
		{[1]int{0}, [1]int32{0}},
		{0.0, false},
	}
	pair := pairs[simrt.Draw(len(pairs))]
	if pair[0] != "A" || pair[1] != "B" {
		simrt.Probe("look_alike_keys")
	}
	a, b := mk(pair[0]), mk(pair[1])
	open(a)
	if simrt.Failed() {
		return
	}
	if !a.firstStarted {
		simrt.Failf("C09.not-started", "first call of a new Exclusive: its work function has not begun at quiescence")
		return
	}
	m := simrt.Draw(41)
	if m >= 15 {
		simrt.Probe("fifteen_or_more_keys_in_between")
	}
	for i := 0; i < m; i++ {
		ran := false
		if _, err := e.Call(fmt.Sprintf("k%d", i), func() (interface{}, error) { ran = true; return i, nil }); err != nil || !ran {
			simrt.Failf("C09.cross-key-delay", "call for the fresh key k%d while the work of key A is running: ran=%v err=%v", i, ran, err)
			return
		}
	}
	open(b)
	if simrt.Failed() {
		return
	}
	if !b.firstStarted {
		simrt.Failf("C09.cross-key-delay", "the work function of key %#v (%T) has not begun at quiescence while the work function of key %#v (%T) is running (%d other keys came and went in between): different keys are not serialised against each other", b.key, b.key, a.key, a.key, m)
		return
	}
	first, second := b, a
	if simrt.Chance(1, 3) {
		first, second = a, b
	}
	close(first.gate)
	simrt.Quiesce(-1)
	if simrt.Failed() {
		return
	}
	if !first.firstRet || !first.secRet {
		simrt.Failf("C09.cross-key-delay", "the work function of key %#v returned; quiescent, and of its two calls (one running, one waiting behind it) returned: first=%v second=%v, while the work function of key %#v is still running: a long-running work function for one key must not delay calls for another (%d other keys came and went between the two keys' first calls)", first.key, first.firstRet, first.secRet, second.key, m)
		return
	}
	close(second.gate)
	simrt.Quiesce(-1)
	if simrt.Failed() {
		return
	}
	if !second.firstRet || !second.secRet {
		simrt.Failf("C09.stuck", "every work function has returned; calls of key %#v returned: first=%v second=%v", second.key, second.firstRet, second.secRet)
		return
	}
	for _, s := range []*side{a, b} {
		if s.overlap {
			simrt.Failf("C09.overlap", "two work functions of key %#v ran at the same time", s.key)
			return
		}
		if s.execs < 1 || s.execs > 2 {
			simrt.Failf("C09.stuck", "key %#v: %d executions for two calls, the second of which arrived while the first was running", s.key, s.execs)
			return
		}
	}
}
