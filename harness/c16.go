package harness

import (
	"context"
	"fmt"
	"sync"
	"time"

	"bbsim/simrt"

	bigbuff "github.com/joeycumines/go-bigbuff"
)

// C16: CombineContext / ConflatedContext / ChainAfterFunc.
//
// Soundness rule used by every check in this file: "the result must still be live" (or "f must not
// have run") is asserted only while no relevant cancel has been *invoked* (the flag is set before
// the cancel call, and it is read after the observation returned); "the result must be cancelled"
// (or "f must have run") is asserted only at quiescence, after the cancel calls returned and every
// goroutine the context package started has had its chance to run.

func init() {
	Register(Harness{Prop: "C16", Name: "C16/combine", Run: c16Combine, Weight: 2})
	Register(Harness{Prop: "C16", Name: "C16/conflated", Run: c16Conflated, Weight: 2})
	Register(Harness{Prop: "C16", Name: "C16/chain", Run: c16Chain, Weight: 2})
}

type c16Key string

// c16Wrap is a Context implementation the context package does not know: propagation to and from it
// takes the goroutine / AfterFunc paths instead of the direct parent-child links.
type c16Wrap struct{ context.Context }

// c16Detached is a Context implementation with its own cancellation (Done/Err) that only forwards
// Value to a standard context: the standard machinery reachable through Value (cancel cause, parent
// links) says nothing about whether THIS context is cancelled. The inner context may already be
// cancelled while this one is live, or stay live while this one is cancelled.
type c16Detached struct {
	vals context.Context
	done chan struct{}
	once sync.Once
}

func (c *c16Detached) Deadline() (time.Time, bool) { return time.Time{}, false }
func (c *c16Detached) Done() <-chan struct{}       { return c.done }
func (c *c16Detached) Value(k any) any             { return c.vals.Value(k) }
func (c *c16Detached) Err() error {
	select {
	case <-c.done:
		return context.Canceled
	default:
		return nil
	}
}
func (c *c16Detached) cancel() { c.once.Do(func() { close(c.done) }) }

// c16In is one input context of a combinator.
type c16In struct {
	idx      int
	kind     int // 0 plain WithCancel, 1 cancelled through its parent, 2 foreign wrapper, 3 WithTimeout, 4 own cancellation
	ctx      context.Context
	cancel   context.CancelFunc
	pre      bool // cancelled by the main task before the combinator is called
	never    bool // cannot be cancelled at all: cancel requests are no-ops
	invoked  bool // a cancel has been invoked (or the context may expire by itself)
	returned bool // a cancel has returned
}

const (
	c16Shared = c16Key("shared")
)

// c16Uncomparable is a context type whose values cannot be compared with ==.
type c16Uncomparable struct {
	context.Context
	tags []string
}

// c16Deadlined reports a deadline (enforced by whoever made it, far in the future) on top of a
// cancellable context: everything but Deadline is the inner context's.
type c16Deadlined struct {
	context.Context
	dl time.Time
}

func (c c16Deadlined) Deadline() (time.Time, bool) { return c.dl, true }

func c16Own(i int) c16Key { return c16Key(fmt.Sprintf("own%d", i)) }

// c16DrawInput builds input i: it carries Value(shared)=100+i and Value(own<i>)=200+i.
func c16DrawInput(i int) *c16In { return c16DrawInputN(i, false) }

// c16DrawInputN: allowNever additionally admits inputs that can never be cancelled.
func c16DrawInputN(i int, allowNever bool) *c16In {
	in := &c16In{idx: i}
	base := context.WithValue(context.WithValue(context.Background(), c16Shared, 100+i), c16Own(i), 200+i)
	switch x := simrt.Draw(10); {
	case x < 5:
		in.kind = 0
		in.ctx, in.cancel = context.WithCancel(base)
	case x < 7:
		in.kind = 1
		parent, pcancel := context.WithCancel(base)
		child, ccancel := context.WithCancel(parent)
		in.ctx = child
		in.cancel = func() { pcancel(); ccancel() } // cancelled through its parent first
	case x < 8:
		in.kind = 2
		inner, c := context.WithCancel(base)
		in.ctx, in.cancel = c16Wrap{inner}, c
		simrt.Probe("foreign_context")
	case x < 9 && allowNever && simrt.Chance(1, 2):
		// a context that can never be cancelled (values only): it is live for ever
		in.kind = 5
		in.never = true
		in.ctx, in.cancel = context.WithoutCancel(base), func() {}
		simrt.Probe("never_cancellable_input")
	case x < 9:
		in.kind = 4
		inner, c := context.WithCancel(base)
		d := &c16Detached{vals: inner, done: make(chan struct{})}
		if simrt.Chance(1, 2) {
			c() // the context it takes its values from is cancelled; this one is not
			simrt.Probe("detached_from_cancelled_context")
		} else {
			simrt.Probe("own_cancellation_over_live_context")
		}
		in.ctx, in.cancel = d, func() { d.cancel(); _ = c }
	case x < 10 && simrt.Chance(1, 3):
		// reports a deadline far away (no timer of its own, so it cannot expire in a run), each input's a
		// little later than the previous one's; ended by its cancel function like any other
		in.kind = 6
		inner, c := context.WithCancel(base)
		in.ctx, in.cancel = c16Deadlined{inner, simrt.Epoch.Add(time.Hour + time.Duration(i)*time.Minute)}, c
		simrt.Probe("far_deadline_input")
	default:
		in.kind = 3
		d := time.Duration(simrt.DrawRange(1, 20)) * time.Microsecond
		in.ctx, in.cancel = context.WithTimeout(base, d)
		in.invoked = true // may expire at any moment from now on
		simrt.Probe("timeout_input")
	}
	in.pre = simrt.Chance(1, 5) && !in.never
	return in
}

func (in *c16In) doCancel() {
	if in.never {
		return // nothing to cancel: the input stays live
	}
	in.invoked = true
	simrt.Fault("ctx_cancel")
	in.cancel()
	in.returned = true
}

type c16Step struct {
	target int // index into the distinct inputs, -1 = the result's own cancel function
	p      pause
}

// c16DrawPlan draws the cancel tasks: each is a list of cancels with pauses in front.
func c16DrawPlan(nTargets int, own bool) [][]c16Step {
	var plan [][]c16Step
	if nTargets == 0 && !own {
		return nil
	}
	for t := simrt.DrawRange(0, 3); t > 0; t-- {
		var steps []c16Step
		for k := simrt.DrawRange(1, 3); k > 0; k-- {
			st := c16Step{p: drawPause()}
			if own && (nTargets == 0 || simrt.Chance(1, 6)) {
				st.target = -1
			} else {
				st.target = simrt.Draw(nTargets)
			}
			steps = append(steps, st)
		}
		plan = append(plan, steps)
	}
	return plan
}

// c16Combine: CombineContext(primary, others...) with nil others, pre-cancelled subsets, cancels by
// several tasks (optionally already running while CombineContext executes).
func c16Combine() {
	// ---- program ----
	var primary *c16In
	if !simrt.Chance(1, 5) {
		primary = c16DrawInput(0)
	}
	nOthers := simrt.DrawRange(0, 3)
	others := make([]*c16In, nOthers) // nil entry = nil context
	var live []*c16In                 // distinct non-nil inputs
	if primary != nil {
		live = append(live, primary)
	}
	for i := range others {
		switch {
		case simrt.Chance(1, 4):
			simrt.Probe("nil_other")
		case primary != nil && simrt.Chance(1, 8):
			others[i] = primary // the primary passed again among the others
			simrt.Probe("primary_among_others")
		case i > 0 && others[i-1] != nil && simrt.Chance(1, 8):
			others[i] = others[i-1] // the same context passed twice
		default:
			others[i] = c16DrawInput(i + 1)
			live = append(live, others[i])
		}
	}
	plan := c16DrawPlan(len(live), false)
	early := simrt.Chance(1, 3)
	finalPick := simrt.Draw(64)

	anyInvoked := func() bool {
		for _, in := range live {
			if in.invoked {
				return true
			}
		}
		return false
	}
	var res context.Context
	obsN := 0
	// observe: a cancelled result is only legal once some cancel has been invoked.
	observe := func(where string) bool {
		if res == nil {
			return true
		}
		var err error
		obsN++
		if obsN%2 == 0 {
			err = res.Err()
		} else if d := res.Done(); d != nil {
			select {
			case <-d:
				err = res.Err()
				if err == nil {
					simrt.Failf("C16.combine-done-without-err", "%s: Done() is closed but Err() is nil", where)
					return false
				}
			default:
			}
		}
		if err != nil && !anyInvoked() {
			simrt.Failf("C16.combine-spurious", "%s: result is cancelled (%v) although no input's cancel has been invoked", where, err)
			return false
		}
		return true
	}
	startTasks := func() {
		for _, steps := range plan {
			steps := steps
			go func() {
				for _, st := range steps {
					st.p.do(time.Microsecond)
					live[st.target].doCancel()
					if !observe("after a cancel") {
						return
					}
				}
			}()
		}
	}
	for _, in := range live {
		if in.pre {
			simrt.Probe("precancelled_input")
			in.doCancel()
		}
	}
	if early {
		startTasks()
	}
	// ---- the call ----
	anyPre := false
	for _, in := range live {
		if in.returned {
			anyPre = true
		}
	}
	if early && anyInvoked() && !anyPre {
		simrt.Probe("cancel_during_construct")
	}
	var pctx context.Context
	if primary != nil {
		pctx = primary.ctx
	}
	octx := make([]context.Context, nOthers)
	for i, o := range others {
		if o != nil {
			octx[i] = o.ctx
		}
	}
	r := bigbuff.CombineContext(pctx, octx...)
	if r == nil {
		simrt.Failf("C16.combine-nil", "CombineContext returned nil")
		return
	}
	if err := r.Err(); anyPre && err == nil {
		simrt.Failf("C16.combine-not-precancelled", "an input was already cancelled when CombineContext was called, but the result is not cancelled at return")
		return
	}
	res = r
	if !observe("at return") {
		return
	}
	// values: the primary's, nothing else
	for i := 0; i <= nOthers; i++ {
		var want any
		if primary != nil && i == 0 {
			want = 200
		}
		if got := res.Value(c16Own(i)); got != want {
			simrt.Failf("C16.combine-value", "Value(own%d) = %v, the primary's is %v", i, got, want)
			return
		}
	}
	var wantShared any
	if primary != nil {
		wantShared = 100
	}
	if got := res.Value(c16Shared); got != wantShared {
		simrt.Failf("C16.combine-value", "Value(shared) = %v, the primary's is %v", got, wantShared)
		return
	}
	// a task parked on Done()
	woke, watching := false, false
	if d := res.Done(); d != nil {
		watching = true
		go func() {
			<-d
			woke = true
			if !anyInvoked() {
				simrt.Failf("C16.combine-spurious", "Done() was closed although no input's cancel has been invoked")
			}
		}()
	}
	if !early {
		startTasks()
	}
	check := func(phase string) bool {
		simrt.Quiesce(-1)
		if simrt.Failed() {
			return false
		}
		want := anyInvoked()
		err := res.Err()
		if want && err == nil {
			simrt.Failf("C16.combine-not-cancelled", "%s: quiescent, an input has been cancelled, but the result is still live", phase)
			return false
		}
		if !want && err != nil {
			simrt.Failf("C16.combine-spurious", "%s: quiescent, no input cancelled, but the result reports %v", phase, err)
			return false
		}
		if want && watching && !woke {
			simrt.Failf("C16.combine-not-cancelled", "%s: quiescent, result cancelled, but the task blocked on Done() was not released", phase)
			return false
		}
		if want && (primary == nil || primary.kind != 3) && err != context.Canceled {
			simrt.Failf("C16.combine-err", "%s: Err() = %v, want context.Canceled", phase, err)
			return false
		}
		return true
	}
	if !check("after the workload") {
		return
	}
	if !anyInvoked() && len(live) > 0 {
		simrt.Probe("live_at_quiescence")
		live[finalPick%len(live)].doCancel()
		if !check("after the final cancel") {
			return
		}
	}
	for _, in := range live {
		in.cancel()
	}
	simrt.Quiesce(-1)
}

// c16Conflated: ConflatedContext(inputs...) stays live while some input is live, is cancelled once
// all are (or by its own cancel), carries only the first input's values.
func c16Conflated() {
	n := simrt.DrawRange(1, 4)
	ins := make([]*c16In, n)
	var live []*c16In // distinct
	for i := range ins {
		if i > 0 && simrt.Chance(1, 8) {
			ins[i] = ins[simrt.Draw(i)]
			simrt.Probe("duplicate_input")
			continue
		}
		ins[i] = c16DrawInputN(i, true)
		live = append(live, ins[i])
	}
	if simrt.Chance(1, 6) {
		for _, in := range live {
			in.pre = true
		}
	}
	plan := c16DrawPlan(len(live), true)
	early := simrt.Chance(1, 3)
	// order in which the main task cancels what is left in the final phase
	order := make([]int, len(live))
	for i := range order {
		order[i] = i
	}
	for i := len(order) - 1; i > 0; i-- {
		j := simrt.Draw(i + 1)
		order[i], order[j] = order[j], order[i]
	}
	finalOwn := simrt.Chance(1, 4)

	ownInvoked := false
	allInvoked := func() bool {
		for _, in := range live {
			if !in.invoked {
				return false
			}
		}
		return true
	}
	var res context.Context
	var resCancel context.CancelFunc
	obsN := 0
	observe := func(where string) bool {
		if res == nil {
			return true
		}
		var err error
		obsN++
		if obsN%2 == 0 {
			err = res.Err()
		} else {
			select {
			case <-res.Done():
				err = res.Err()
				if err == nil {
					simrt.Failf("C16.conflated-done-without-err", "%s: Done() is closed but Err() is nil", where)
					return false
				}
			default:
			}
		}
		if err != nil && !ownInvoked && !allInvoked() {
			simrt.Failf("C16.conflated-early", "%s: result is cancelled (%v) although an input is still live (its cancel has not even been invoked) and the result's cancel was not called", where, err)
			return false
		}
		return true
	}
	pendingOwn := 0 // own-cancel steps that ran before the result existed
	startTasks := func() {
		for _, steps := range plan {
			steps := steps
			go func() {
				for _, st := range steps {
					st.p.do(time.Microsecond)
					if st.target < 0 {
						if resCancel == nil {
							pendingOwn++
							continue
						}
						ownInvoked = true
						simrt.Fault("ctx_cancel")
						simrt.Probe("own_cancel")
						resCancel()
					} else {
						live[st.target].doCancel()
					}
					if !observe("after a cancel") {
						return
					}
				}
			}()
		}
	}
	for _, in := range live {
		if in.pre {
			simrt.Probe("precancelled_input")
			in.doCancel()
		}
	}
	if early {
		startTasks()
	}
	allPre := true
	for _, in := range live {
		if !in.returned {
			allPre = false
		}
	}
	if allPre {
		simrt.Probe("all_precancelled")
	}
	if early && !allPre {
		for _, in := range live {
			if in.invoked && !in.pre && in.kind != 3 {
				simrt.Probe("cancel_during_construct")
				break
			}
		}
	}
	cs := make([]context.Context, n)
	for i, in := range ins {
		cs[i] = in.ctx
	}
	r, cancel := bigbuff.ConflatedContext(cs...)
	for i := range cs {
		cs[i] = context.Background() // the argument slice is the caller's again once the call has returned
	}
	if r == nil || cancel == nil {
		simrt.Failf("C16.conflated-nil", "ConflatedContext returned nil")
		return
	}
	if err := r.Err(); allPre && err != context.Canceled {
		simrt.Failf("C16.conflated-not-precancelled", "every input was already cancelled when ConflatedContext was called, but at return Err() = %v", err)
		return
	}
	res, resCancel = r, cancel
	if !observe("at return") {
		return
	}
	// values: only the first input's
	first := ins[0].idx
	for i := 0; i < n; i++ {
		var want any
		if i == first {
			want = 200 + i
		}
		if got := res.Value(c16Own(i)); got != want {
			simrt.Failf("C16.conflated-value", "Value(own%d) = %v, want %v (only the first input's values are inherited)", i, got, want)
			return
		}
	}
	if got := res.Value(c16Shared); got != 100+first {
		simrt.Failf("C16.conflated-value", "Value(shared) = %v, want the first input's %v", got, 100+first)
		return
	}
	woke := false
	go func() {
		<-res.Done()
		woke = true
		if !ownInvoked && !allInvoked() {
			simrt.Failf("C16.conflated-early", "Done() was closed although an input is still live and the result's cancel was not called")
		}
	}()
	if !early {
		startTasks()
	}
	check := func(phase string) bool {
		simrt.Quiesce(-1)
		if simrt.Failed() {
			return false
		}
		want := ownInvoked || allInvoked()
		err := res.Err()
		if want && err == nil {
			simrt.Failf("C16.conflated-not-cancelled", "%s: quiescent, every input cancelled (or own cancel called: %v), but the result is still live", phase, ownInvoked)
			return false
		}
		if !want && err != nil {
			simrt.Failf("C16.conflated-early", "%s: quiescent, an input is still live, own cancel not called, but the result reports %v", phase, err)
			return false
		}
		if want && !woke {
			simrt.Failf("C16.conflated-not-cancelled", "%s: quiescent, result cancelled, but the task blocked on Done() was not released", phase)
			return false
		}
		if want && err != context.Canceled {
			simrt.Failf("C16.conflated-err", "%s: Err() = %v, want context.Canceled", phase, err)
			return false
		}
		return true
	}
	if !check("after the workload") {
		return
	}
	// final phase: cancel what is left one at a time; the result must stay live until the last one
	for k, oi := range order {
		if ownInvoked || allInvoked() {
			break
		}
		in := live[oi]
		if in.invoked {
			continue
		}
		if finalOwn && k == len(order)-1 {
			break
		}
		simrt.Probe("final_phase_cancel")
		in.doCancel()
		if !check("after a final-phase cancel") {
			return
		}
	}
	if !ownInvoked && !allInvoked() {
		ownInvoked = true
		simrt.Fault("ctx_cancel")
		simrt.Probe("own_cancel")
		resCancel()
		if !check("after the result's own cancel") {
			return
		}
	}
	resCancel()
	for _, in := range live {
		in.cancel()
	}
	simrt.Quiesce(-1)
	_ = pendingOwn
}

// c16Chain: ChainAfterFunc(ctx, other, f): f runs exactly once iff either context is cancelled.
func c16Chain() {
	a := c16DrawInput(0)
	b := a
	if !simrt.Chance(1, 10) {
		b = c16DrawInput(1)
	} else {
		simrt.Probe("same_context_twice")
	}
	live := []*c16In{a}
	if b != a {
		live = append(live, b)
	}
	if simrt.Chance(1, 8) {
		// both contexts are values of one user-defined type that cannot be compared (a struct with a slice
		// field): legal contexts, as long as nobody compares them
		a.ctx = c16Uncomparable{a.ctx, []string{"a"}}
		if b != a {
			b.ctx = c16Uncomparable{b.ctx, []string{"b"}}
		}
		simrt.Probe("uncomparable_context_types")
	}
	nChains := simrt.DrawRange(1, 2)
	slowF := make([]int, nChains)
	for i := range slowF {
		if simrt.Chance(1, 3) {
			slowF[i] = simrt.DrawRange(1, 10)
		}
	}
	plan := c16DrawPlan(len(live), false)
	if simrt.Chance(1, 3) && len(live) == 2 {
		// two tasks, no pauses, one context each: the stop()/f() race
		plan = [][]c16Step{{{target: 0}}, {{target: 1}}}
	}
	early := simrt.Chance(1, 4)
	firstFinal := simrt.Draw(2)

	anyInvoked := func() bool {
		for _, in := range live {
			if in.invoked {
				return true
			}
		}
		return false
	}
	calls := make([]int, nChains)
	startTasks := func() {
		for _, steps := range plan {
			steps := steps
			go func() {
				for _, st := range steps {
					st.p.do(time.Microsecond)
					in := live[st.target]
					for _, o := range live {
						if o != in && o.invoked && !o.returned && o.kind != 3 {
							simrt.Probe("concurrent_cancel_both")
						}
					}
					in.doCancel()
				}
			}()
		}
	}
	for _, in := range live {
		if in.pre {
			simrt.Probe("precancelled_input")
			in.doCancel()
		}
	}
	if early {
		startTasks()
	}
	for i := 0; i < nChains; i++ {
		i := i
		bigbuff.ChainAfterFunc(a.ctx, b.ctx, func() {
			calls[i]++
			if calls[i] > 1 {
				simrt.Failf("C16.chain-twice", "the chained function ran %d times", calls[i])
				return
			}
			if !anyInvoked() {
				simrt.Failf("C16.chain-spurious", "the chained function ran although neither context's cancel has been invoked")
				return
			}
			if slowF[i] > 0 {
				time.Sleep(time.Duration(slowF[i]) * time.Microsecond)
			}
		})
	}
	if !early {
		startTasks()
	}
	check := func(phase string) bool {
		simrt.Quiesce(-1)
		if simrt.Failed() {
			return false
		}
		want := 0
		if anyInvoked() {
			want = 1
		}
		for i, c := range calls {
			if c != want {
				simrt.Failf("C16.chain-count", "%s: quiescent, cancels invoked: ctx=%v other=%v, chained function %d ran %d times, want %d", phase, a.invoked, b.invoked, i, c, want)
				return false
			}
		}
		return true
	}
	if !check("after the workload") {
		return
	}
	for k := 0; k < len(live); k++ {
		in := live[(firstFinal+k)%len(live)]
		if in.invoked && in.returned {
			continue
		}
		simrt.Probe("final_phase_cancel")
		in.doCancel()
		if !check("after a final-phase cancel") {
			return
		}
	}
	for _, in := range live {
		in.cancel()
	}
	simrt.Quiesce(-1)
}
