package harness

import (
	"context"
	"time"

	"bbsim/simrt"

	bigbuff "github.com/joeycumines/go-bigbuff"
)

func init() {
	Register(Harness{Prop: "C01", Name: "C01/put-cancel", Run: c01PutCancel, Weight: 1})
}

// c01PutCancel: "All successful Put calls form one total order ..." has a converse the main workload
// never exercises, because its producers use a context that is never cancelled: a Put that reports
// failure is not part of the order, so none of its values may reach a consumer, and a Put that
// reports success is, so all of its values must. Here every Put has its own context and a canceller
// task that fires at a drawn moment: before the call, while the call waits for the buffer's lock
// behind readers and other producers, or after it.
//
// One consumer, created before the first Put, reads everything (committing now and then) until the
// buffer is quiescent and every Put has returned.
func c01PutCancel() {
	unit := time.Microsecond
	b := newBuffer(nil, []time.Duration{0, time.Microsecond, 10 * time.Millisecond}[simrt.Draw(3)])
	c, err := b.NewConsumer()
	if err != nil {
		simrt.Failf("C01.setup", "%v", err)
		return
	}
	defer func() {
		_ = c.Rollback() // Close waits until nothing is read-but-uncommitted
		_ = c.Close()
		_ = b.Close()
	}()
	type put struct {
		prod, call  int
		vals        []int
		inv, ret    int64
		err         error
		cancelBegun bool
		returned    bool
	}
	nProd := simrt.DrawRange(1, 3)
	var puts []*put
	owner := map[int]*put{}
	for p := 0; p < nProd; p++ {
		p := p
		nCalls := simrt.DrawRange(1, 4)
		sizes := make([]int, nCalls)
		pre := make([]pause, nCalls)
		cancelP := make([]pause, nCalls)
		willCancel := make([]bool, nCalls)
		for i := range sizes {
			sizes[i] = simrt.DrawRange(1, 3)
			pre[i] = drawPause()
			cancelP[i] = drawPause()
			willCancel[i] = simrt.Chance(2, 3)
		}
		go func() {
			seq := 0
			for i := 0; i < nCalls; i++ {
				pre[i].do(unit)
				pt := &put{prod: p, call: i}
				args := make([]interface{}, sizes[i])
				for j := range args {
					v := p*1000 + seq
					seq++
					pt.vals = append(pt.vals, v)
					owner[v] = pt
					args[j] = v
				}
				if len(args) == 1 && simrt.Chance(1, 4) {
					// one value that happens to be a slice (a row, a tuple): it is ONE value
					args[0] = []interface{}{pt.vals[0], "row"}
					simrt.Probe("value_of_slice_type")
				}
				puts = append(puts, pt)
				ctx, cancel := context.WithCancel(context.Background())
				if willCancel[i] {
					cp := cancelP[i]
					go func() {
						cp.do(unit)
						pt.cancelBegun = true
						simrt.Fault("ctx_cancel")
						if pt.inv != 0 && !pt.returned {
							simrt.Probe("cancel_while_put_in_flight")
						}
						cancel()
					}()
				}
				pt.inv = simrt.Stamp()
				pt.err = b.Put(ctx, args...)
				pt.ret = simrt.Stamp()
				pt.returned = true
				cancel()
				if pt.err != nil {
					simrt.Probe("put_failed_by_context")
					if !pt.cancelBegun || pt.err != context.Canceled {
						simrt.Failf("C01.put-failed", "Put %d of producer %d failed with %v (its context cancelled=%v, the buffer is open)", i, p, pt.err, pt.cancelBegun)
						return
					}
				}
			}
		}()
	}
	// the reader: Gets until told to stop, with a lock holder's share of the contention
	stop, stopReader := context.WithCancel(context.Background())
	defer stopReader()
	var got []int
	readerDone := false
	go func() {
		defer func() { readerDone = true }()
		for {
			v, err := c.Get(stop)
			if err != nil {
				return
			}
			switch x := v.(type) {
			case int:
				got = append(got, x)
			case []interface{}:
				n, ok := 0, false
				if len(x) == 2 && x[1] == "row" {
					n, ok = x[0].(int)
				}
				if !ok {
					simrt.Failf("C01.invented-value", "the consumer read %#v, which nobody put", v)
					return
				}
				got = append(got, n)
			default:
				simrt.Failf("C01.invented-value", "the consumer read %#v, which nobody put (a row put as one value must arrive as that one value)", v)
				return
			}
			if simrt.Chance(1, 3) {
				if err := c.Commit(); err != nil {
					simrt.Failf("C01.commit", "Commit failed: %v", err)
					return
				}
			}
		}
	}()
	simrt.Quiesce(-1)
	if simrt.Failed() {
		return
	}
	for _, pt := range puts {
		if !pt.returned {
			simrt.Failf("C01.put-blocked", "Put %d of producer %d has not returned at quiescence", pt.call, pt.prod)
			return
		}
	}
	stopReader()
	simrt.Quiesce(-1)
	if !readerDone {
		simrt.Failf("C01.get-blocked", "the reader's Get did not return after its context was cancelled")
		return
	}
	// every value read belongs to a Put that reported success; every such Put is read completely,
	// contiguously, in argument order, once
	pos := map[*put]int{} // index in got of the put's first value
	for i := 0; i < len(got); {
		pt := owner[got[i]]
		if pt == nil {
			simrt.Failf("C01.invented-value", "the consumer read %d, which nobody put", got[i])
			return
		}
		if pt.err != nil {
			simrt.Failf("C01.failed-put-delivered", "the consumer read %d, a value of Put %d of producer %d, which returned the error %v: a Put that reports failure is not part of the order of successful Puts", got[i], pt.call, pt.prod, pt.err)
			return
		}
		if _, dup := pos[pt]; dup {
			simrt.Failf("C01.duplicate", "values of Put %d of producer %d appear twice (or not contiguously) in the consumer's stream %v", pt.call, pt.prod, got)
			return
		}
		pos[pt] = i
		for j, want := range pt.vals {
			if i+j >= len(got) || got[i+j] != want {
				simrt.Failf("C01.contiguity", "Put %d of producer %d put %v; the consumer's stream %v does not contain them contiguously in argument order at index %d", pt.call, pt.prod, pt.vals, got, i)
				return
			}
		}
		i += len(pt.vals)
	}
	for _, pt := range puts {
		if pt.err != nil {
			continue
		}
		if _, ok := pos[pt]; !ok {
			simrt.Failf("C01.loss", "Put %d of producer %d returned nil but its values %v never reached the consumer that was created before it (stream %v)", pt.call, pt.prod, pt.vals, got)
			return
		}
	}
	// consistent with real time (and therefore with each producer's program order)
	for _, a := range puts {
		for _, bb := range puts {
			if a.err == nil && bb.err == nil && a.ret < bb.inv && pos[a] > pos[bb] {
				simrt.Failf("C01.real-time-order", "Put %v returned (stamp %d) before Put %v was called (stamp %d) but its values come later in the consumer's stream %v", a.vals, a.ret, bb.vals, bb.inv, got)
				return
			}
		}
	}
	_ = bigbuff.DefaultCleanerCooldown
}
