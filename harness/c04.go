package harness

import (
	"context"
	"time"

	"bbsim/simrt"

	bigbuff "github.com/joeycumines/go-bigbuff"
)

func init() {
	Register(Harness{Prop: "C04", Name: "C04/reclaim", Run: c04Reclaim, Weight: 3})
	Register(Harness{Prop: "C04", Name: "C04/fixed", Run: c04Fixed})
	Register(Harness{Prop: "C04", Name: "C04/burst", Run: c04Burst})
}

// c04Reclaim: producers and consumers that keep up; the last commits / closes are placed at drawn
// offsets inside cooldown windows; then everything stops. At quiescence with all timers drained the
// buffer must hold exactly the backlog of the slowest open consumer.
func c04Reclaim() {
	cool := drawCooldown()
	b := newBuffer(nil, cool)
	nCons := simrt.DrawRange(1, 3+2*(simrt.Scale()-1))
	nProd := simrt.DrawRange(1, 2*simrt.Scale())
	type cons struct {
		c         bigbuff.Consumer
		reads     int // how many values it will read in total
		every     int // commit after this many reads
		closeEnd  bool
		eager     bool // after its last commit it asks for one more value and stays blocked in Get
		blocked   bool
		pauses    []pause
		committed int
		closed    bool
		done      bool
	}
	type prod struct {
		batches []int
		pauses  []pause
	}
	total := 0
	prods := make([]*prod, nProd)
	for i := range prods {
		p := &prod{}
		for k := simrt.DrawRange(1, 3*simrt.Scale()); k > 0; k-- {
			n := simrt.DrawRange(1, 3)
			if i == 0 && k == 1 && simrt.Chance(1, 8) {
				// a backlog of a size at which "a few values" is a small fraction of the buffer
				n = simrt.DrawRange(40, 200)
				simrt.Probe("backlog_batch")
			}
			p.batches = append(p.batches, n)
			p.pauses = append(p.pauses, drawPause())
			total += n
		}
		prods[i] = p
	}
	unit := time.Microsecond
	if cool >= time.Millisecond {
		unit = cool / 8
	}
	cs := make([]*cons, nCons)
	for i := range cs {
		c, err := b.NewConsumer()
		if err != nil {
			simrt.Failf("setup", "NewConsumer: %v", err)
			return
		}
		k := &cons{c: c, reads: total, every: simrt.DrawRange(1, 3), closeEnd: simrt.Chance(1, 3)}
		if i > 0 && simrt.Chance(1, 3) {
			k.reads = simrt.DrawRange(0, total) // a laggard: stops early (commits what it read)
		} else if simrt.Chance(1, 3) {
			k.eager = true // caught up and parked in Get while the others make their last commits
			k.closeEnd = false
		}
		for j := 0; j <= k.reads; j++ {
			k.pauses = append(k.pauses, drawPause())
		}
		cs[i] = k
	}
	// the last open consumer never closes in the workload, so that "at least one consumer is open"
	cs[0].closeEnd = false
	stop, stopFn := context.WithCancel(bg)
	defer stopFn()
	for _, p := range prods {
		p := p
		go func() {
			for i, n := range p.batches {
				p.pauses[i].do(unit)
				vals := make([]interface{}, n)
				for j := range vals {
					vals[j] = j
				}
				if err := b.Put(bg, vals...); err != nil {
					simrt.Failf("C04.put", "Put failed: %v", err)
					return
				}
			}
		}()
	}
	for _, k := range cs {
		k := k
		go func() {
			defer func() { k.done = true }()
			pending := 0
			for r := 0; r < k.reads; r++ {
				k.pauses[r].do(unit)
				if _, err := k.c.Get(bg); err != nil {
					simrt.Failf("C04.get", "Get failed: %v", err)
					return
				}
				pending++
				if pending >= k.every || r == k.reads-1 {
					if err := k.c.Commit(); err != nil {
						simrt.Failf("C04.commit", "Commit failed: %v", err)
						return
					}
					k.committed += pending
					pending = 0
				}
			}
			k.pauses[k.reads].do(unit)
			if k.eager {
				k.blocked = true
				simrt.Probe("reader_parked_in_get_during_last_commits")
				if _, err := k.c.Get(stop); err == nil {
					simrt.Failf("C04.get", "Get returned a value although everything had been read")
					return
				}
				k.blocked = false
			}
			if k.closeEnd {
				simrt.Fault("close_handle")
				if err := k.c.Close(); err != nil {
					simrt.Failf("C04.close", "consumer Close failed: %v", err)
					return
				}
				k.closed = true
			}
		}()
	}
	// the cooldown is changed while the buffer is in use (raised or lowered): whatever window is running,
	// what every open consumer has committed past is gone once everything has gone quiet
	if simrt.Chance(1, 3) {
		newCool := drawCooldown()
		rp := drawPause()
		rs := simrt.DrawRange(0, 60)
		go func() {
			rp.do(unit)
			simrt.Stall(rs)
			simrt.Probe("cooldown_changed_while_in_use")
			if err := b.SetCleanerConfig(bigbuff.CleanerConfig{Cleaner: bigbuff.DefaultCleaner, Cooldown: newCool}); err != nil {
				simrt.Failf("C04.setup", "SetCleanerConfig: %v", err)
			}
		}()
	}
	expect := func(phase string) bool {
		simrt.Quiesce(-1) // all tasks blocked or done, every pending timer fired
		if simrt.Failed() {
			return false
		}
		for i, k := range cs {
			if !k.done && !k.blocked {
				simrt.Failf("C04.stuck", "%s: consumer %d did not finish its program", phase, i)
				return false
			}
		}
		minC, open := -1, 0
		for _, k := range cs {
			if k.closed {
				continue
			}
			open++
			if minC < 0 || k.committed < minC {
				minC = k.committed
			}
		}
		if open == 0 {
			return true
		}
		want := total - minC
		if got := b.Size(); got != want {
			simrt.Failf("C04.not-reclaimed", "%s: quiescent, all timers drained, cooldown %v: Size()=%d but puts=%d and every open consumer (%d open) has committed at least %d, so %d was expected",
				phase, cool, got, total, open, minC, want)
			return false
		}
		if got := len(b.Slice()); got != want {
			simrt.Failf("C04.not-reclaimed", "%s: len(Slice())=%d, expected %d", phase, got, want)
			return false
		}
		return true
	}
	if !expect("after workload") {
		return
	}
	simrt.Probe("quiescent_check")
	// wake the parked readers (a Close of their consumer would otherwise wait for their Get)
	stopFn()
	if !expect("after releasing the parked readers") {
		return
	}
	// release holds one at a time: close the slowest open consumer, expect the backlog to shrink
	for {
		slow, open := -1, 0
		for i, k := range cs {
			if k.closed {
				continue
			}
			open++
			if slow < 0 || k.committed < cs[slow].committed {
				slow = i
			}
		}
		if open <= 1 {
			break
		}
		// place the close inside a cooldown window opened by a no-op broadcast source: a Put of nothing
		if simrt.Chance(1, 2) {
			_ = b.Put(bg)
			time.Sleep(time.Duration(simrt.DrawRange(0, 9)) * unit)
		}
		simrt.Fault("close_handle")
		if err := cs[slow].c.Close(); err != nil {
			simrt.Failf("C04.close", "consumer Close failed: %v", err)
			return
		}
		cs[slow].closed = true
		simrt.Probe("close_releases_hold")
		if !expect("after closing the slowest consumer") {
			return
		}
	}
	_ = b.Close()
	simrt.Quiesce(-1)
}

// c04Fixed: FixedBufferCleaner(max, target<=max): once quiescent, Size <= max whatever the consumers
// did.
// c04MkFixed is the one place of a program that builds its cleaners (a configuration reload handler):
// the closures it returns differ only in what they captured. (A function variable, so that the calls are
// not inlined and the closures really come from one place; directives do not survive instrumentation.)
var c04MkFixed = func(max, target int, cb func(bigbuff.FixedBufferCleanerNotification)) bigbuff.Cleaner {
	return bigbuff.FixedBufferCleaner(max, target, cb)
}

func c04Fixed() {
	cool := drawCooldown()
	max := simrt.DrawRange(1, 5)
	target := simrt.DrawRange(-2, max) // "target <= max": a negative target asks for more than everything, i.e. everything
	forced := 0
	fixed := c04MkFixed(max, target, func(n bigbuff.FixedBufferCleanerNotification) { forced++ })
	// late: the bound is installed on a buffer that is already in use and has gone quiet (a program that
	// tightens its memory bound at run time); nothing else happens afterwards
	late := simrt.Chance(1, 4)
	var b *bigbuff.Buffer
	if late && simrt.Chance(1, 2) {
		b = newBuffer(nil, cool)
	} else if late {
		// a loose bound first, tightened later (same constructor, same cooldown: only the limits differ)
		b = newBuffer(c04MkFixed(1000000, 500000, nil), cool)
		simrt.Probe("fixed_cleaner_limits_tightened_late")
	} else {
		b = newBuffer(fixed, cool)
	}
	nCons := simrt.DrawRange(0, 2)
	total := 0
	var batches []int
	var pauses []pause
	hugeAt := -1
	if simrt.Chance(1, 12) {
		hugeAt = 1
	}
	for k := simrt.DrawRange(1, 5); k > 0; k-- {
		n := simrt.DrawRange(1, 4)
		if k == hugeAt {
			n = []int{1030, 1300, 4200, 5200}[simrt.Draw(4)] + simrt.Draw(50)
			simrt.Probe("huge_batch")
		}
		batches = append(batches, n)
		pauses = append(pauses, drawPause())
		total += n
	}
	unit := time.Microsecond
	if cool >= time.Millisecond {
		unit = cool / 8
	}
	committed := make([]int, nCons) // values each (still open) consumer has committed
	for i := 0; i < nCons; i++ {
		c, err := b.NewConsumer()
		if err != nil {
			simrt.Failf("setup", "NewConsumer: %v", err)
			return
		}
		reads := simrt.DrawRange(0, total)
		if reads > 400 {
			reads = 400 + reads%100 // (a huge batch read to the end would not fit the step budget)
		}
		i := i
		go func() {
			pending := 0
			for r := 0; r < reads; r++ {
				if _, err := c.Get(bg); err != nil {
					simrt.Probe("lagging_consumer_failed")
					_ = c.Rollback()
					return // evicted under it: legal with a forced trim
				}
				pending++
				if simrt.Chance(1, 2) {
					if c.Commit() == nil {
						committed[i] += pending
						pending = 0
					}
				}
			}
			_ = c.Rollback()
		}()
	}
	go func() {
		for i, n := range batches {
			pauses[i].do(unit)
			vals := make([]interface{}, n)
			if err := b.Put(bg, vals...); err != nil {
				simrt.Failf("C04.put", "Put failed: %v", err)
				return
			}
		}
	}()
	simrt.Quiesce(-1)
	if simrt.Failed() {
		return
	}
	if late {
		simrt.Probe("cleaner_configured_on_a_quiet_buffer")
		if err := b.SetCleanerConfig(bigbuff.CleanerConfig{Cleaner: fixed, Cooldown: cool}); err != nil {
			simrt.Failf("C04.setup", "SetCleanerConfig: %v", err)
			return
		}
		simrt.Quiesce(-1)
		if simrt.Failed() {
			return
		}
	}
	if forced > 0 {
		simrt.Fault("forced_trim")
	}
	if got := b.Size(); got > max {
		simrt.Failf("C04.fixed-exceeds-max", "quiescent with FixedBufferCleaner(max=%d,target=%d), cooldown %v: Size()=%d > max after %d values were put", max, target, cool, got, total)
		return
	}
	// the first clause holds with this cleaner too ("forces cleanup past the default"): what every open
	// consumer has committed past is gone at quiescence
	if nCons > 0 {
		least := committed[0]
		for _, n := range committed {
			if n < least {
				least = n
			}
		}
		if got := b.Size(); got > total-least {
			simrt.Failf("C04.fixed-keeps-consumed-prefix", "quiescent with FixedBufferCleaner(max=%d,target=%d), cooldown %v: %d values were put, every open consumer has committed at least %d of them, yet Size()=%d > %d", max, target, cool, total, least, got, total-least)
			return
		}
	}
	_ = b.Close()
	simrt.Quiesce(-1)
}

// c04Burst: sustained traffic with changes spaced closer than the cooldown (a throttle must still
// clean once per cooldown; a debounce would never clean while the traffic lasts). One consumer keeps
// up; the main task samples Size at quiescent instants: whatever was committed at least one cooldown
// ago must be gone by then ("within a bounded delay", "instead of growing without bound").
func c04Burst() {
	cool := []time.Duration{time.Millisecond, 10 * time.Millisecond}[simrt.Draw(2)]
	gap := cool / time.Duration(simrt.DrawRange(2, 5))
	rounds := simrt.DrawRange(6, 14)
	batch := simrt.DrawRange(1, 3)
	b := newBuffer(nil, cool)
	c, err := b.NewConsumer()
	if err != nil {
		simrt.Failf("setup", "NewConsumer: %v", err)
		return
	}
	// The cleanup goroutine is started by the first call on the Buffer and may run its first cycle before
	// SetCleanerConfig has been applied, i.e. with the default cooldown: let that first window pass, so
	// that every window of the burst has the configured length.
	simrt.Quiesce(-1)
	type mark struct {
		at        time.Duration // simulated time read after the Commit returned
		committed int
	}
	var marks []mark
	put, done := 0, false
	go func() {
		defer func() { done = true }()
		for i := 0; i < rounds; i++ {
			vals := make([]interface{}, batch)
			if err := b.Put(bg, vals...); err != nil {
				simrt.Failf("C04.put", "Put failed: %v", err)
				return
			}
			put += batch
			for j := 0; j < batch; j++ {
				if _, err := c.Get(bg); err != nil {
					simrt.Failf("C04.get", "Get failed: %v", err)
					return
				}
			}
			if err := c.Commit(); err != nil {
				simrt.Failf("C04.commit", "Commit failed: %v", err)
				return
			}
			marks = append(marks, mark{simrt.Now(), put})
			simrt.Logf("committed %d at %v", put, simrt.Now())
			time.Sleep(gap)
		}
	}()
	for !done && !simrt.Failed() {
		time.Sleep(gap)
		simrt.Quiesce(0) // everything due by now has happened, nobody can run
		if simrt.Failed() {
			return
		}
		// quiescent right now: everything committed at least one cooldown before this instant is gone.
		// Size() itself yields (the clock may move, the worker may put more), so the commits counted
		// are those old enough NOW and the number put is read AFTER Size returned: both err on the
		// safe side.
		now := simrt.Now()
		old := 0
		for _, m := range marks {
			if m.at+cool <= now {
				old = m.committed
			}
		}
		if old > 0 {
			simrt.Probe("burst_sample_with_old_commits")
		}
		got := b.Size()
		if putAfter := put + batch; got > putAfter-old { // a Put may have appended without having returned yet
			simrt.Failf("C04.not-reclaimed-during-traffic", "cooldown %v, changes every %v: quiescent at simulated time %v with %d values committed at least one cooldown earlier; Size() taken right afterwards is %d although at most %d values had been put (at most %d may remain)",
				cool, gap, now, old, got, putAfter, putAfter-old)
			return
		}
	}
	simrt.Quiesce(-1)
	if simrt.Failed() {
		return
	}
	if got := b.Size(); got != 0 {
		simrt.Failf("C04.not-reclaimed", "burst over, quiescent, all timers drained: Size()=%d, everything was committed", got)
		return
	}
	_ = b.Close()
	simrt.Quiesce(-1)
}
