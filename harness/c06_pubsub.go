package harness

import (
	"context"
	"fmt"
	"time"

	"bbsim/simrt"

	bigbuff "github.com/joeycumines/go-bigbuff"
)

// Shared ChanPubSub workload of C06 and C07.
//
// 1-3 senders with unique messages; 1-4 subscriber tasks, each running 1-3 subscriptions one after the
// other; optionally an auditor subscription made by the main task before anything else starts and
// withdrawn only in the shutdown phase. A subscription is one of
//
//	manual      Add(1); loop { select { C -> Wait() immediately; quit; stop } }; Add(-1)
//	iterator    for v := range SubscribeContext(ctx) {...}, left by context cancel or early break
//	never-run   SubscribeContext(ctx), iterator never called, context cancelled promptly
//	cancel-1st  SubscribeContext(ctx), context cancelled, then the iterator is run
//
// Every subscriber follows the documented contract of ChanPubSub. Legal slowness is injected with
// simrt.Stall (between receive and Wait, after Wait, before an iterator is first used).
//
// Withdrawals are placed by "cancellers": a task that waits until the k-th Send of the run is about
// to be invoked, stays off the CPU for a drawn number of steps, and then closes the manual
// subscriber's quit channel / cancels the iterator's context. That puts unsubscribes into every
// window of Send (before the count is read, between count and arming, mid-delivery, ack phase).
//
// The runner only records; c06Oracle / c07 checks read the record.

const (
	psManual = iota
	psIter
	psIterNeverRun
	psIterCancelFirst
)

var psKindName = [...]string{"manual", "iterator", "iterator-never-run", "iterator-cancelled-first"}

type psProfile struct {
	prop      string // "C06" / "C07": prefix of the check ids raised by the runner itself
	maxSubs   int
	maxSess   int
	audNum    int // auditor present with probability audNum/audDen
	audDen    int
	churn     bool // more short-lived subscriptions, more never-run / cancel-first iterators
	failStuck bool // raise <prop>.blocked when a call is stuck at quiescence (else: leave it to "deadlock")
}

type psSessPlan struct {
	kind           int
	pre            pause
	maxRecv        int // -1 unlimited; manual >= 0; iterator >= 1
	trigger        bool
	leaveByPanic   bool // iterator with maxRecv > 0: leave the loop by a panic out of the body instead of break
	peek           bool // manual: the subscriber looks at the subscriber count (Add(0)) between Wait and its next receive
	nilYield       bool // never-run / cancelled-first: the iterator is called with a nil yield func (documented to panic, after making sure the subscription is withdrawn exactly once)
	preCancel      int  // iterator-cancelled-first: 0 cancel after SubscribeContext returned, 1 before the call, 2 racing the call
	trigSend       int  // canceller waits for this (global) Send index to be invoked ...
	trigStall      int  // ... then stalls this many steps, then withdraws the subscription
	stallAfterRecv int  // manual: steps between the receive and Wait (slow subscriber); iterator: steps in the loop body
	stallAfterWait int
	startStall     int   // iterator: steps between SubscribeContext and the first use
	cancelPause    pause // never-run: before the cancel
}

type psSenderPlan struct {
	pre []pause
}

type psPlan struct {
	senders []psSenderPlan
	total   int
	subs    [][]psSessPlan
	auditor int // 0 none, 1 manual, 2 iterator
	unit    time.Duration
	inspect []int // stalls in front of Add(0) calls made by an inspector task during the run
}

type psRec struct {
	val     int
	at      int64 // stamp taken right after the value was handed to the subscriber
	waitInv int64 // manual only: stamp right before Wait()
	waitRet int64
}

type psSub struct {
	id        int
	task      int // subscriber task index, -1 auditor, -2 fresh round
	kind      int
	plan      *psSessPlan
	subInv    int64 // Add(1) / SubscribeContext invoked
	subRet    int64 // ... returned (0: not yet)
	wdInv     int64 // first moment the withdrawal was begun (Add(-1) invoked, cancel() invoked, loop body about to break)
	wdRet     int64 // withdrawal known to be complete (Add(-1) returned / iterator that owned the unsubscribe returned)
	cancelInv int64
	recs      []psRec
	state     string
	ended     bool
	quit      chan struct{}
	over      chan struct{}
	cancel    context.CancelFunc
	seq       func(func(int) bool)
}

type psSend struct {
	sender, idx int
	val         int
	inv, ret    int64
	n           int
	done        bool
}

type psRun struct {
	prof      psProfile
	plan      *psPlan
	x         *bigbuff.ChanPubSub[chan int, int]
	c         chan int
	sends     []*psSend
	subs      []*psSub
	startedCh []chan struct{}
	started   int
	stop      chan struct{}
	stopping  bool
	sendDone  []bool
	taskDone  []bool
	taskCur   []*psSub
}

func drawPSPlan(prof psProfile) *psPlan {
	p := &psPlan{unit: time.Microsecond}
	ns := simrt.DrawRange(1, 3)
	for i := 0; i < ns; i++ {
		var sp psSenderPlan
		for k := simrt.DrawRange(1, 4); k > 0; k-- {
			sp.pre = append(sp.pre, drawPause())
			p.total++
		}
		p.senders = append(p.senders, sp)
	}
	if simrt.Chance(prof.audNum, prof.audDen) {
		p.auditor = 1 + simrt.Draw(2)
	}
	nsub := simrt.DrawRange(1, prof.maxSubs+2*(simrt.Scale()-1))
	if p.auditor == 0 && nsub == 1 && simrt.Chance(1, 2) {
		nsub = 2
	}
	for i := 0; i < nsub; i++ {
		var sess []psSessPlan
		for k := simrt.DrawRange(1, prof.maxSess); k > 0; k-- {
			sess = append(sess, drawPSSession(prof, p.total))
		}
		p.subs = append(p.subs, sess)
	}
	if simrt.Chance(1, 3) {
		for k := simrt.DrawRange(1, 4); k > 0; k-- {
			p.inspect = append(p.inspect, simrt.DrawRange(0, 40))
		}
	}
	return p
}

func drawPSSession(prof psProfile, totalSends int) psSessPlan {
	var s psSessPlan
	k := simrt.Draw(20)
	switch {
	case prof.churn && k < 8, !prof.churn && k < 10:
		s.kind = psManual
	case prof.churn && k < 15, !prof.churn && k < 18:
		s.kind = psIter
	case k < 18 && prof.churn, k < 19 && !prof.churn:
		s.kind = psIterNeverRun
	default:
		s.kind = psIterCancelFirst
	}
	s.pre = drawPause()
	s.maxRecv = -1
	switch s.kind {
	case psManual:
		switch m := simrt.Draw(10); {
		case m < 3:
			s.maxRecv = -1
		case m < 5 || (prof.churn && m < 6):
			s.maxRecv = 0 // unsubscribes before ever receiving
		default:
			s.maxRecv = simrt.DrawRange(1, 3)
		}
	case psIter:
		if simrt.Chance(1, 2) {
			s.maxRecv = simrt.DrawRange(1, 3)
			s.leaveByPanic = simrt.Chance(1, 4)
		}
	}
	if (s.kind == psManual || s.kind == psIter) && simrt.Chance(3, 5) {
		s.trigger = true
		s.trigSend = simrt.Draw(totalSends)
		s.trigStall = simrt.DrawRange(0, 40)
	}
	if simrt.Chance(1, 5) {
		s.stallAfterRecv = simrt.DrawRange(1, 20)
		if simrt.Chance(1, 3) {
			// a subscriber a whole cycle behind: the others receive, acknowledge and receive again meanwhile
			s.stallAfterRecv = simrt.DrawRange(20, 150)
		}
	}
	if simrt.Chance(1, 5) {
		s.stallAfterWait = simrt.DrawRange(1, 20)
	}
	if s.kind == psManual && simrt.Chance(1, 4) {
		s.peek = true
	}
	if s.kind != psManual && simrt.Chance(1, 3) {
		s.startStall = simrt.DrawRange(1, 15)
	}
	if s.kind == psIterNeverRun {
		s.cancelPause = drawPause()
	}
	if (s.kind == psIterNeverRun || s.kind == psIterCancelFirst) && simrt.Chance(1, 4) {
		s.nilYield = true
	}
	if s.kind == psIterCancelFirst && simrt.Chance(2, 3) {
		s.preCancel = simrt.DrawRange(1, 2)
		s.trigStall = simrt.DrawRange(0, 25)
	}
	return s
}

func newPSRun(prof psProfile, plan *psPlan) *psRun {
	r := &psRun{prof: prof, plan: plan, c: make(chan int), stop: make(chan struct{})}
	r.x = bigbuff.NewChanPubSub(r.c)
	for i := 0; i < plan.total; i++ {
		r.startedCh = append(r.startedCh, make(chan struct{}))
	}
	r.sendDone = make([]bool, len(plan.senders))
	r.taskDone = make([]bool, len(plan.subs))
	r.taskCur = make([]*psSub, len(plan.subs))
	return r
}

// guard turns a panic escaping a library call into a violation of the property under test (a call
// that crashed delivered nothing of what the property promises; C07 forbids every panic outright).
func (r *psRun) guard(who string) {
	if p := recover(); p != nil {
		if fmt.Sprintf("%T", p) == "simrt.abortRun" {
			panic(p)
		}
		simrt.Failf(r.prof.prop+".panic", "%s: a call of a contract-abiding client panicked: %v", who, p)
	}
}

func (r *psRun) newSub(task int, sp *psSessPlan) *psSub {
	s := &psSub{id: len(r.subs), task: task, kind: sp.kind, plan: sp, state: "idle", over: make(chan struct{})}
	if sp.kind == psManual && sp.trigger {
		s.quit = make(chan struct{})
	}
	r.subs = append(r.subs, s)
	return s
}

// --- manual subscriber -------------------------------------------------------------------------

func (r *psRun) manualSubscribe(s *psSub) {
	s.state = "subscribing (Add(1))"
	s.subInv = simrt.Stamp()
	r.x.Add(1)
	s.subRet = simrt.Stamp()
	s.state = "subscribed"
}

func (r *psRun) manualLoop(s *psSub) {
	sp := s.plan
	c := r.x.C()
	n := 0
loop:
	for sp.maxRecv < 0 || n < sp.maxRecv {
		s.state = "listening"
		select {
		case v := <-c:
			s.recs = append(s.recs, psRec{val: v, at: simrt.Stamp()})
			rec := &s.recs[len(s.recs)-1]
			if sp.stallAfterRecv > 0 {
				s.state = "stalled before Wait"
				simrt.Stall(sp.stallAfterRecv) // a slow subscriber: finite delay, Wait is still the next thing it does
			}
			rec.waitInv = simrt.Stamp()
			s.state = "in Wait()"
			r.x.Wait()
			rec.waitRet = simrt.Stamp()
			n++
			if sp.stallAfterWait > 0 {
				s.state = "stalled after Wait"
				simrt.Stall(sp.stallAfterWait)
			}
			if sp.peek {
				// an accessor, not a blocking operation: fine between Wait and the next receive
				s.state = "inspecting the subscriber count (Add(0))"
				simrt.Probe("add0_by_a_subscriber_between_messages")
				if c := r.x.Add(0); c < 1 {
					simrt.Failf(r.prof.prop+".count", "subscription %d: Add(0) returned %d while this subscription is standing", s.id, c)
					return
				}
			}
		case <-s.quit:
			break loop
		case <-r.stop:
			break loop
		}
	}
	if n == 0 {
		simrt.Probe("unsubscribe_before_first_receive")
	}
	s.state = "unsubscribing (Add(-1))"
	spins := simrt.Spins()
	s.wdInv = simrt.Stamp()
	r.x.Add(-1)
	s.wdRet = simrt.Stamp()
	switch d := simrt.Spins() - spins; {
	case d >= 2:
		simrt.Probe("tryrlock_spin")
		fallthrough
	case d == 1:
		simrt.Probe("tryrlock_failed")
	}
	s.state = "ended"
}

// --- iterator subscriber -----------------------------------------------------------------------

func (r *psRun) iterSubscribe(s *psSub) {
	ctx, cancel := context.WithCancel(context.Background())
	s.cancel = cancel
	switch s.plan.preCancel {
	case 1: // SubscribeContext is called with a context that is already cancelled
		r.cancelIter(s, "subscribe_with_cancelled_ctx")
	case 2: // the cancellation races the SubscribeContext call itself (which may wait behind a Send)
		k := s.plan.trigStall
		go func() {
			simrt.Stall(k)
			r.cancelIter(s, "cancel_races_subscribe")
		}()
	}
	s.state = "subscribing (SubscribeContext)"
	s.subInv = simrt.Stamp()
	s.seq = r.x.SubscribeContext(ctx)
	s.subRet = simrt.Stamp()
	s.state = "subscribed"
}

// cancelIter cancels the context of an iterator subscription (the ctx_cancel fault).
func (r *psRun) cancelIter(s *psSub, probe string) {
	if s.cancelInv == 0 {
		s.cancelInv = simrt.Stamp()
		if s.wdInv == 0 {
			s.wdInv = s.cancelInv
		}
		simrt.Fault("ctx_cancel")
		if probe != "" {
			simrt.Probe(probe)
		}
	}
	s.cancel()
}

func (r *psRun) iterLoop(s *psSub) {
	sp := s.plan
	if sp.startStall > 0 {
		s.state = "stalled before first use of the iterator"
		simrt.Stall(sp.startStall)
	}
	n := 0
	broke := false
	s.state = "iterating"
	func() {
		// leaving the loop early may also be a panic out of the loop body (recovered here, by the
		// subscriber): the iterator must unsubscribe on that path too
		defer func() {
			if x := recover(); x != nil {
				if x != psBodyPanic {
					panic(x)
				}
			}
		}()
		for v := range s.seq {
			s.state = "in loop body"
			s.recs = append(s.recs, psRec{val: v, at: simrt.Stamp()})
			n++
			if sp.maxRecv > 0 && n >= sp.maxRecv {
				if s.wdInv == 0 {
					s.wdInv = simrt.Stamp()
				}
				if s.cancelInv == 0 {
					broke = true
				}
				if sp.leaveByPanic {
					simrt.Probe("iterator_body_panic")
					panic(psBodyPanic)
				}
				simrt.Probe("iterator_early_break")
				break
			}
			if sp.stallAfterRecv > 0 {
				simrt.Stall(sp.stallAfterRecv)
			}
			s.state = "iterating"
		}
	}()
	if broke && s.cancelInv == 0 {
		// the iterator owned the unsubscribe (no cancel had even been requested when it returned)
		s.wdRet = simrt.Stamp()
	}
	if s.cancelInv == 0 && !broke {
		// the iterator returned although nobody withdrew the subscription
		s.state = "iterator returned by itself"
		simrt.Failf(r.prof.prop+".iterator-ended", "subscription %d: the SubscribeContext iterator returned although its context was not cancelled, the loop did not break and the channel was not closed", s.id)
		return
	}
	s.state = "ended"
}

// callNilYield calls the iterator with a nil yield function and absorbs the documented panic.
func (r *psRun) callNilYield(s *psSub) {
	simrt.Probe("iterator_called_with_nil_yield")
	s.state = "calling the iterator with a nil yield func"
	defer func() {
		if x := recover(); x != nil {
			if fmt.Sprintf("%T", x) == "simrt.abortRun" {
				panic(x)
			}
		}
	}()
	s.seq(nil)
}

// psBodyPanic is the value panicked with by a loop body that leaves an iterator that way.
var psBodyPanic = any("c06: scripted panic out of the iterator's loop body")

// --- tasks ---------------------------------------------------------------------------------------

func (r *psRun) canceller(s *psSub) {
	defer r.guard(fmt.Sprintf("canceller of subscription %d", s.id))
	sp := s.plan
	select {
	case <-r.startedCh[sp.trigSend]:
	case <-s.over:
		return
	case <-r.stop:
		return
	}
	simrt.Stall(sp.trigStall)
	if s.ended || r.stopping {
		return
	}
	if s.kind == psManual {
		simrt.Probe("quit_signal")
		close(s.quit)
	} else {
		r.cancelIter(s, "ctx_cancel_unsubscribe")
	}
}

func (r *psRun) endSession(s *psSub) {
	s.ended = true
	close(s.over)
	if s.cancel != nil {
		s.cancel() // release the context; the subscription is already withdrawn (or being withdrawn)
	}
}

func (r *psRun) subscriberTask(ti int) {
	defer r.guard(fmt.Sprintf("subscriber task %d", ti))
	for i := range r.plan.subs[ti] {
		sp := &r.plan.subs[ti][i]
		sp.pre.do(r.plan.unit)
		if r.stopping || simrt.Failed() {
			break
		}
		s := r.newSub(ti, sp)
		r.taskCur[ti] = s
		switch sp.kind {
		case psManual:
			r.manualSubscribe(s)
			if sp.trigger {
				go r.canceller(s)
			}
			r.manualLoop(s)
		case psIter:
			r.iterSubscribe(s)
			if sp.trigger {
				go r.canceller(s)
			}
			r.iterLoop(s)
		case psIterNeverRun:
			r.iterSubscribe(s)
			s.state = "holding an iterator it will never run"
			sp.cancelPause.do(r.plan.unit)
			if sp.nilYield {
				// the misuse path of the iterator withdraws the subscription itself, synchronously
				s.wdInv = simrt.Stamp()
				r.callNilYield(s)
				s.wdRet = simrt.Stamp()
			} else {
				r.cancelIter(s, "iterator_never_run")
			}
			s.state = "ended"
		case psIterCancelFirst:
			r.iterSubscribe(s)
			r.cancelIter(s, "cancel_before_iterate")
			if sp.nilYield {
				// the cancellation already withdraws the subscription: the misuse path must not do it again
				r.callNilYield(s)
				s.state = "ended"
			} else {
				r.iterLoop(s)
			}
		}
		r.endSession(s)
		if simrt.Failed() {
			return
		}
	}
	r.taskCur[ti] = nil
	r.taskDone[ti] = true
}

func (r *psRun) senderTask(si int) {
	defer r.guard(fmt.Sprintf("sender %d", si))
	for i, p := range r.plan.senders[si].pre {
		p.do(r.plan.unit)
		s := &psSend{sender: si, idx: i, val: (si+1)*100 + i + 1}
		r.sends = append(r.sends, s)
		k := r.started
		r.started++
		close(r.startedCh[k])
		s.inv = simrt.Stamp()
		s.n = r.x.Send(s.val)
		s.ret = simrt.Stamp()
		s.done = true
	}
	r.sendDone[si] = true
}

// stuck describes the calls that have not returned (the caller has just quiesced). final: the
// shutdown phase is over, nothing may be left at all.
func (r *psRun) stuck(final bool) string {
	out := ""
	for i, d := range r.sendDone {
		if !d {
			out += fmt.Sprintf(" [sender %d is inside Send]", i)
		}
	}
	for i, d := range r.taskDone {
		if d {
			continue
		}
		s := r.taskCur[i]
		switch {
		case s == nil:
			out += fmt.Sprintf(" [subscriber task %d between subscriptions]", i)
		case !final && (s.state == "listening" || s.state == "iterating"):
			// standing subscription waiting for the next message: fine
		default:
			out += fmt.Sprintf(" [subscriber task %d, subscription %d (%s): %s]", i, s.id, psKindName[s.kind], s.state)
		}
	}
	for _, s := range r.subs {
		if s.task < 0 && !s.ended && (final || (s.state != "listening" && s.state != "iterating")) {
			out += fmt.Sprintf(" [auditor subscription %d (%s): %s]", s.id, psKindName[s.kind], s.state)
		}
	}
	return out
}

// live is the number of subscriptions made and not withdrawn (withdrawal not even begun).
func (r *psRun) live() int {
	n := 0
	for _, s := range r.subs {
		if s.subRet != 0 && s.wdInv == 0 {
			n++
		}
	}
	return n
}

// run executes the workload up to and including the shutdown phase. It returns false if the run is
// over (violation recorded, or calls are stuck and the profile leaves that to the deadlock report).
func (r *psRun) run() bool {
	prop := r.prof.prop
	defer r.guard("main task")
	// the auditor is subscribed before anything else exists, by the main task
	if r.plan.auditor != 0 {
		simrt.Probe("auditor")
		sp := &psSessPlan{kind: psManual, maxRecv: -1}
		if r.plan.auditor == 2 {
			sp.kind = psIter
		}
		a := r.newSub(-1, sp)
		if sp.kind == psManual {
			r.manualSubscribe(a)
			go func() {
				defer r.guard("auditor")
				r.manualLoop(a)
				r.endSession(a)
			}()
		} else {
			r.iterSubscribe(a)
			go func() {
				defer r.guard("auditor")
				r.iterLoop(a)
				r.endSession(a)
			}()
		}
	}
	for i := range r.plan.subs {
		i := i
		go r.subscriberTask(i)
	}
	for i := range r.plan.senders {
		i := i
		go r.senderTask(i)
	}
	// somebody looks at the subscriber count while membership changes: Add(0) must never panic and
	// never report more subscriptions than were ever made, nor a negative number
	if n := len(r.plan.inspect); n > 0 {
		go func() {
			defer r.guard("inspector (Add(0))")
			for _, st := range r.plan.inspect {
				simrt.Stall(st)
				if r.stopping {
					return
				}
				c := r.x.Add(0)
				simrt.Probe("add0_during_churn")
				if c < 0 || c > len(r.subs)+8 {
					simrt.Failf(prop+".count", "Add(0) returned %d while only %d subscriptions had been made so far", c, len(r.subs))
					return
				}
			}
		}()
	}
	simrt.Quiesce(-1)
	if simrt.Failed() {
		return false
	}
	if st := r.stuck(false); st != "" {
		if r.prof.failStuck {
			simrt.Failf(prop+".blocked", "quiescent (no task can run, no timer pending), every subscriber follows the contract, and these calls have not returned:%s", st)
		}
		return false // left to the deadlock report
	}
	if got, want := r.x.Add(0), r.live(); got != want {
		simrt.Failf(prop+".count", "all calls have returned: Add(0)=%d but subscriptions made minus withdrawn = %d", got, want)
		return false
	}
	// shutdown: withdraw every standing subscription
	r.stopping = true
	for _, s := range r.subs {
		if s.kind != psManual && s.subRet != 0 && !s.ended && s.cancelInv == 0 {
			r.cancelIter(s, "ctx_cancel_unsubscribe")
		}
	}
	close(r.stop)
	simrt.Quiesce(-1)
	if simrt.Failed() {
		return false
	}
	if st := r.stuck(true); st != "" {
		if r.prof.failStuck {
			simrt.Failf(prop+".blocked", "shutdown (all contexts cancelled, all manual subscribers told to leave), quiescent, and these calls have not returned:%s", st)
		}
		return false
	}
	if got := r.x.Add(0); got != 0 {
		simrt.Failf(prop+".count", "every subscription was withdrawn and all calls have returned: Add(0)=%d, want 0 (%d subscriptions were made)", got, len(r.subs))
		return false
	}
	return true
}

// historyProbes derives the reach counters that need the whole record.
func (r *psRun) historyProbes() {
	for i, a := range r.sends {
		if !a.done {
			continue
		}
		if a.n == 0 {
			simrt.Probe("send_with_no_subscribers")
		}
		for _, b := range r.sends[i+1:] {
			if b.done && a.inv < b.ret && b.inv < a.ret {
				simrt.Probe("concurrent_sends")
			}
		}
		first := int64(0) // first moment a copy of a.val was known to be delivered
		for _, s := range r.subs {
			for _, rc := range s.recs {
				if rc.val == a.val && (first == 0 || rc.at < first) {
					first = rc.at
				}
			}
		}
		for _, s := range r.subs {
			if s.subInv < a.ret && a.inv < s.subRet {
				simrt.Probe("subscribe_during_send")
			}
			if s.wdInv != 0 && s.wdInv > a.inv && s.wdInv < a.ret {
				simrt.Probe("unsubscribe_overlaps_send")
				got := false
				for _, rc := range s.recs {
					if rc.val == a.val {
						got = true
					}
				}
				// counted by this Send (subscribed before it began, still subscribed when a copy had
				// already been delivered) and did not receive it: its negative Add absorbed the copy
				if !got && s.subRet < a.inv && first != 0 && s.wdInv > first {
					simrt.Probe("unsubscribe_mid_send")
				}
			}
		}
	}
}
