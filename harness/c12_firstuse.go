package harness

import (
	"context"

	"bbsim/simrt"

	bigbuff "github.com/joeycumines/go-bigbuff"
)

// C12/first-use: several goroutines make the very first calls on a zero-value Buffer at the same
// time (the lazy initialiser uses double-checked initialisation and is meant to cope), then the
// buffer is closed. Whatever each caller obtained during the racing first calls (a Done channel, a
// consumer) must belong to the one Buffer that Close shuts down: Done closes, consumers are closed,
// later calls fail, no goroutine stays behind.
//
// Not reused by C11: the unlocked first reads of the initialiser are the documented exception there.
func init() {
	Register(Harness{Prop: "C12", Name: "C12/first-use", Run: c12FirstUse, Weight: 1})
	raceSkip["C12/first-use"] = true
}

func c12FirstUse() {
	b := new(bigbuff.Buffer)
	n := simrt.DrawRange(2, 4)
	kinds := make([]int, n)
	pauses := make([]pause, n)
	for i := range kinds {
		kinds[i] = simrt.Draw(4)
		pauses[i] = drawPause()
	}
	dones := make([]<-chan struct{}, 0, n)
	var cons []bigbuff.Consumer
	puts := 0
	finished := 0
	for i := 0; i < n; i++ {
		i := i
		go func() {
			defer func() { finished++ }()
			pauses[i].do(1000)
			switch kinds[i] {
			case 0:
				dones = append(dones, b.Done())
			case 1:
				c, err := b.NewConsumer()
				if err != nil {
					simrt.Failf("C12.first-use", "NewConsumer on a fresh buffer failed: %v", err)
					return
				}
				cons = append(cons, c)
			case 2:
				if err := b.Put(context.Background(), i); err != nil {
					simrt.Failf("C12.first-use", "Put on a fresh buffer failed: %v", err)
					return
				}
				puts++
			case 3:
				b.Size()
				dones = append(dones, b.Done())
			}
		}()
	}
	simrt.Quiesce(-1)
	if simrt.Failed() {
		return
	}
	if finished != n {
		simrt.Failf("C12.call-stuck", "%d of %d first calls on a zero-value Buffer have not returned", n-finished, n)
		return
	}
	simrt.Probe("concurrent_first_use")
	if got := b.Size(); got != puts {
		simrt.Failf("C12.first-use", "%d values were put by the racing first calls, Size() = %d", puts, got)
		return
	}
	closed := false
	go func() {
		simrt.Fault("close_handle")
		if err := b.Close(); err != nil {
			simrt.Failf("C12.first-use", "first Close failed: %v", err)
		}
		closed = true
	}()
	simrt.Quiesce(-1)
	if simrt.Failed() {
		return
	}
	if !closed {
		simrt.Failf("C12.close-stuck", "Buffer.Close has not returned at quiescence (no consumer has uncommitted reads)")
		return
	}
	isClosed := func(ch <-chan struct{}) bool {
		select {
		case <-ch:
			return true
		default:
			return false
		}
	}
	for i, d := range append(dones, b.Done()) {
		if !isClosed(d) {
			simrt.Failf("C12.done-not-closed", "Done channel #%d obtained during the racing first calls is still open after Close returned", i)
			return
		}
	}
	for i, c := range cons {
		if !isClosed(c.Done()) {
			simrt.Failf("C12.done-not-closed", "consumer #%d created during the racing first calls was not closed by Buffer.Close", i)
			return
		}
		if _, err := c.Get(context.Background()); err == nil {
			simrt.Failf("C12.later-call-no-error", "Get on a consumer of a closed buffer returned no error")
			return
		}
	}
	if err := b.Put(context.Background(), 1); err == nil {
		simrt.Failf("C12.later-call-no-error", "Put after Close returned no error")
		return
	}
	if err := b.Close(); err == nil {
		simrt.Failf("C12.second-close-no-error", "second Close returned nil")
		return
	}
	for _, t := range simrt.Tasks() {
		if t.Lib && t.State != simrt.Done {
			simrt.Failf("C12.goroutine-left", "library goroutine %q (task %d) is still %s on %s after the buffer was closed", t.Name, t.ID, t.State, t.On)
			return
		}
	}
}

// C12/close-first: Close is the very first call ever made on a zero-value Buffer (a buffer that was
// created and never needed). It is closed like any other: Done is closed, later Put and NewConsumer
// fail, a second Close fails, and nothing of the library is left running.
func init() {
	Register(Harness{Prop: "C12", Name: "C12/close-first", Run: c12CloseFirst, Weight: 1})
}

func c12CloseFirst() {
	b := new(bigbuff.Buffer)
	n0 := len(simrt.Tasks())
	if err := b.Close(); err != nil {
		simrt.Failf("C12.close", "the first Close of a fresh Buffer failed: %v", err)
		return
	}
	select {
	case <-b.Done():
	default:
		simrt.Failf("C12.done-not-closed", "Close of a fresh Buffer returned, its Done channel is open")
		return
	}
	if err := b.Put(context.Background(), 1); err == nil {
		simrt.Failf("C12.later-call-no-error", "Put on a Buffer whose first call was Close returned nil")
		return
	}
	if c, err := b.NewConsumer(); err == nil || c != nil {
		simrt.Failf("C12.later-call-no-error", "NewConsumer on a Buffer whose first call was Close returned (%v, %v)", c, err)
		return
	}
	if err := b.Close(); err == nil {
		simrt.Failf("C12.second-close-no-error", "a second Close returned nil")
		return
	}
	simrt.Quiesce(-1)
	for _, t := range simrt.Tasks() {
		if t.ID >= n0 && t.Lib && t.State != simrt.Done {
			simrt.Failf("C12.goroutine-left", "a Buffer whose first call was Close: a goroutine of the library is still there: %s (%v on %s)", t.Name, t.State, t.On)
			return
		}
	}
}
