package harness

import (
	"math"

	"bbsim/simrt"

	bigbuff "github.com/joeycumines/go-bigbuff"
)

func init() {
	Register(Harness{Prop: "C14", Name: "C14/unlimited", Run: c14Unlimited})
}

// c14Unlimited: "every sequence of count arguments" includes the count that says "as many as it takes"
// (math.MaxInt, or a merely huge number from a configuration file). One queued function needs one
// worker: each Call must run its function once and return its result, within the step budget and
// without starting thousands of goroutines first (the simulator aborts a run that does:
// check id task-explosion).
func c14Unlimited() {
	var w bigbuff.Workers
	n := simrt.DrawRange(1, 3)
	done := 0
	for i := 0; i < n; i++ {
		i := i
		count := []int{math.MaxInt, 1 << 40, 1 << 20, math.MaxInt32}[simrt.Draw(4)]
		pre := drawPause()
		body := drawPause()
		go func() {
			pre.do(1000)
			ran := 0
			r, err := w.Call(count, func() (interface{}, error) {
				ran++
				body.do(1000)
				return i, nil
			})
			if ran != 1 || r != i || err != nil {
				simrt.Failf("C14.wrong-result", "Call(%d, f) returned (%v, %v) after running f %d times", count, r, err, ran)
				return
			}
			done++
		}()
	}
	simrt.Probe("huge_count")
	simrt.Quiesce(-1)
	if simrt.Failed() {
		return
	}
	if done != n {
		simrt.Failf("C14.starved", "quiescent: %d of %d Calls with a huge count have not returned", n-done, n)
		return
	}
	waited := false
	go func() { w.Wait(); waited = true }()
	simrt.Quiesce(-1)
	if !waited || w.Count() != 0 {
		simrt.Failf("C14.wait-stuck", "after the Calls returned: Wait returned=%v, Count()=%d", waited, w.Count())
	}
}
