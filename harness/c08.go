package harness

import (
	"fmt"
	"math"
	"time"

	"bbsim/simrt"

	bigbuff "github.com/joeycumines/go-bigbuff"
)

// C08 — ChanCaster.
//
// Harnesses
//
//	C08/core      unbuffered channel, 1-2 senders, 1-4 receiver tasks with 1-3 registrations each; a registration is d units
//	              with Add(+d) and then, per unit, either receives from C or gives up and deregisters
//	              (Add(-1), or Add(-k) for all its remaining units at once). Ways to give up: patient
//	              (only in the shutdown phase), timer in the select, give-up channel already closed
//	              (races the send), try-once (select with default) after a stall.
//	C08/buffered  buffered channel, receivers that never deregister; only the counting clauses.
//	C08/misuse    the panic clauses: out-of-range delta at an arbitrary moment of a normal round;
//	              unbalanced negative Add and overflow at a quiet moment, then ordinary calls.
//
// Check ids
//
//	C08.count          receipts of v != n returned by Send(v)
//	C08.missed         a unit with Add ≺ Send(v), no deregistration begun before ret(Send v), received neither v nor
//	                   the value of a Send that could have counted it earlier
//	C08.late-unit      a unit received v although its Add(+) began after Send(v) returned, or after a copy of v
//	                   had already been delivered (a registration during a Send counts only for a later Send)
//	C08.split          two units registered by one Add(+d) received values of different Sends
//	C08.nonzero-after-send  Add(0) after a Send != 0 (bounded by the positive Adds that overlap / follow the Send)
//	C08.add-result     an Add returned a count outside what the calls so far allow
//	C08.blocked        quiescent, receivers inside the contract, and a Send / Add has not returned
//	C08.final-count    everything received or deregistered, Add(0) != 0
//	C08.panic          a call of a contract-abiding client panicked
//	C08.oob-no-panic / C08.oob-broke-caster   out-of-range delta did not panic / left the caster unusable
//	C08.misuse-no-panic   unbalanced negative Add / overflowing Add at a quiet moment did not panic
//	C08.misuse-not-sticky a later call after state-corrupting misuse did not panic
//	C08.misuse-healed  (harness C08/misuse-literal) literal reading of "every later call panics"
func init() {
	Register(Harness{Prop: "C08", Name: "C08/core", Run: c08Core, Weight: 4})
	Register(Harness{Prop: "C08", Name: "C08/buffered", Run: c08Buffered, Weight: 1})
	Register(Harness{Prop: "C08", Name: "C08/misuse", Run: func() { c08Misuse(false) }, Weight: 2})
	Register(Harness{Prop: "C08", Name: "C08/misuse-literal", Run: func() { c08Misuse(true) }, Weight: 2})
}

const (
	ccPatient   = iota // receive; deregister only when told to shut down
	ccTimer            // select { C; timer } -> deregister when the timer wins
	ccImmediate        // select { C; already closed channel }
	ccTryOnce          // stall, then select { C; default }
)

type ccUnit struct {
	group    *ccGroup
	mode     int
	arg      int
	got      bool
	val      int
	at       int64 // stamp right after the receive
	dereg    bool
	deregInv int64
	deregRet int64
}

type ccGroup struct {
	id     int
	d      int
	bulk   bool // on giving up, deregister all remaining units with one Add(-k)
	pre    pause
	addInv int64
	addRet int64
	addRes int
	units  []*ccUnit
}

type ccSend struct {
	val      int
	pre      pause
	inv, ret int64
	n        int
	done     bool
	probe    bool // Add(0) right after
	zInv     int64
	zRet     int64
	z        int
}

type ccRun struct {
	cc       *bigbuff.ChanCaster[chan int, int]
	groups   []*ccGroup
	sends    []*ccSend
	stop     chan struct{}
	closed   chan struct{}
	recvDone []bool
	sendDone []bool
	recvAt   []string
}

func ccGuard(who string) {
	if p := recover(); p != nil {
		if fmt.Sprintf("%T", p) == "simrt.abortRun" {
			panic(p)
		}
		simrt.Failf("C08.panic", "%s: a call of a contract-abiding client panicked: %v", who, p)
	}
}

func c08Core() {
	r := &ccRun{stop: make(chan struct{}), closed: make(chan struct{})}
	close(r.closed)
	r.cc = bigbuff.NewChanCaster(make(chan int))
	unit := time.Microsecond
	nSend := simrt.DrawRange(1, 2+simrt.Scale()-1)
	nRecv := simrt.DrawRange(1, 4*simrt.Scale())
	sendPlans := make([][]*ccSend, nSend)
	for i := range sendPlans {
		for k := simrt.DrawRange(1, 3); k > 0; k-- {
			s := &ccSend{val: (i+1)*100 + len(sendPlans[i]) + 1, pre: drawPause(), probe: simrt.Chance(1, 2)}
			sendPlans[i] = append(sendPlans[i], s)
		}
	}
	recvPlans := make([][]*ccGroup, nRecv)
	for i := range recvPlans {
		for k := simrt.DrawRange(1, 3); k > 0; k-- {
			g := &ccGroup{d: []int{1, 1, 1, 2, 2, 3}[simrt.Draw(6)], bulk: simrt.Chance(1, 3), pre: drawPause()}
			for u := 0; u < g.d; u++ {
				cu := &ccUnit{group: g}
				switch m := simrt.Draw(10); {
				case m < 4:
					cu.mode = ccPatient
				case m < 6:
					cu.mode, cu.arg = ccTimer, simrt.DrawRange(1, 15)
				case m < 8:
					cu.mode = ccImmediate
				default:
					cu.mode, cu.arg = ccTryOnce, simrt.DrawRange(0, 25)
				}
				g.units = append(g.units, cu)
			}
			recvPlans[i] = append(recvPlans[i], g)
		}
	}
	r.recvDone = make([]bool, nRecv)
	r.recvAt = make([]string, nRecv)
	r.sendDone = make([]bool, nSend)
	for i := range recvPlans {
		i := i
		go func() {
			defer ccGuard(fmt.Sprintf("receiver task %d", i))
			for _, g := range recvPlans[i] {
				g.pre.do(unit)
				r.receiveGroup(g, &r.recvAt[i])
				if simrt.Failed() {
					return
				}
			}
			r.recvDone[i] = true
		}()
	}
	for i := range sendPlans {
		i := i
		go func() {
			defer ccGuard(fmt.Sprintf("sender %d", i))
			for _, s := range sendPlans[i] {
				s.pre.do(unit)
				r.sends = append(r.sends, s)
				s.inv = simrt.Stamp()
				s.n = r.cc.Send(s.val)
				s.ret = simrt.Stamp()
				s.done = true
				if s.probe {
					s.zInv = simrt.Stamp()
					s.z = r.cc.Add(0)
					s.zRet = simrt.Stamp()
				}
			}
			r.sendDone[i] = true
		}()
	}
	simrt.Quiesce(-1)
	if simrt.Failed() {
		return
	}
	// every Send must be over: the only receivers that can still be standing are patient units, and
	// they are receiving
	if st := r.stuck(false); st != "" {
		simrt.Failf("C08.blocked", "quiescent (no task can run, no timer pending), receivers follow the Add protocol, and these calls have not returned:%s", st)
		return
	}
	close(r.stop) // patient units give up now
	simrt.Quiesce(-1)
	if simrt.Failed() {
		return
	}
	if st := r.stuck(true); st != "" {
		simrt.Failf("C08.blocked", "shutdown (every standing unit deregisters), quiescent, and these calls have not returned:%s", st)
		return
	}
	if n := r.cc.Add(0); n != 0 {
		simrt.Failf("C08.final-count", "every registered unit either received a value or deregistered, and all calls returned: Add(0)=%d, want 0", n)
		return
	}
	r.oracle()
}

func (r *ccRun) stuck(final bool) string {
	out := ""
	for i, d := range r.sendDone {
		if !d {
			out += fmt.Sprintf(" [sender %d inside Send/Add(0)]", i)
		}
	}
	for i, d := range r.recvDone {
		if !d && (final || r.recvAt[i] != "receiving (patient)") {
			out += fmt.Sprintf(" [receiver task %d: %s]", i, r.recvAt[i])
		}
	}
	return out
}

// receiveGroup registers g.d units and handles them one after the other.
func (r *ccRun) receiveGroup(g *ccGroup, at *string) {
	g.id = len(r.groups)
	r.groups = append(r.groups, g)
	*at = fmt.Sprintf("in Add(%d)", g.d)
	g.addInv = simrt.Stamp()
	g.addRes = r.cc.Add(g.d)
	g.addRet = simrt.Stamp()
	for ui := 0; ui < g.d; ui++ {
		u := g.units[ui]
		var v int
		got := false
		switch u.mode {
		case ccPatient:
			*at = "receiving (patient)"
			select {
			case v = <-r.cc.C:
				got = true
			case <-r.stop:
			}
		case ccTimer:
			*at = "receiving (with timer)"
			t := time.NewTimer(time.Duration(u.arg) * time.Microsecond)
			select {
			case v = <-r.cc.C:
				got = true
			case <-t.C:
			case <-r.stop:
			}
			t.Stop()
		case ccImmediate:
			*at = "receiving (give-up already signalled)"
			select {
			case v = <-r.cc.C:
				got = true
			case <-r.closed:
			}
		case ccTryOnce:
			simrt.Stall(u.arg)
			*at = "receiving (try once)"
			select {
			case v = <-r.cc.C:
				got = true
			default:
			}
		}
		if got {
			u.got, u.val, u.at = true, v, simrt.Stamp()
			continue
		}
		k := 1
		if g.bulk {
			k = g.d - ui
		}
		if k > 1 {
			simrt.Probe("bulk_deregister")
		}
		*at = fmt.Sprintf("in Add(%d)", -k)
		inv := simrt.Stamp()
		for j := ui; j < ui+k; j++ {
			g.units[j].dereg, g.units[j].deregInv = true, inv
		}
		res := r.cc.Add(-k)
		ret := simrt.Stamp()
		for j := ui; j < ui+k; j++ {
			g.units[j].deregRet = ret
		}
		if res < 0 {
			simrt.Failf("C08.add-result", "Add(%d) returned %d", -k, res)
			return
		}
		ui += k - 1
	}
	*at = "between groups"
}

func (r *ccRun) oracle() {
	byVal := map[int]*ccSend{}
	first := map[int]int64{} // first moment a copy of v is known to have been delivered
	receipts := map[int]int{}
	for _, s := range r.sends {
		byVal[s.val] = s
	}
	totalUnits := 0
	for _, g := range r.groups {
		totalUnits += g.d
		for _, u := range g.units {
			if !u.got {
				continue
			}
			if byVal[u.val] == nil {
				simrt.Failf("C08.count", "a unit of group %d received %d, which no Send carried", g.id, u.val)
				return
			}
			receipts[u.val]++
			if first[u.val] == 0 || u.at < first[u.val] {
				first[u.val] = u.at
			}
		}
	}
	for _, g := range r.groups {
		gval := 0
		// Add(+d) result: at least d, at most everything requested so far
		max := 0
		for _, h := range r.groups {
			if h.addInv < g.addRet {
				max += h.d
			}
		}
		if g.addRes < g.d || g.addRes > max {
			simrt.Failf("C08.add-result", "group %d: Add(%d) [@%d,@%d] returned %d; only %d units had been requested by then", g.id, g.d, g.addInv, g.addRet, g.addRes, max)
			return
		}
		for ui, u := range g.units {
			if u.got {
				s := byVal[u.val]
				if s.done && s.ret < g.addInv {
					simrt.Failf("C08.late-unit", "unit %d of group %d (Add(%d) began @%d) received %d, whose Send had returned @%d", ui, g.id, g.d, g.addInv, u.val, s.ret)
					return
				}
				if f := first[u.val]; f != 0 && f < g.addInv {
					simrt.Failf("C08.late-unit", "unit %d of group %d received %d although its Add(%d) began (@%d) after a copy of that value had already been delivered (@%d): a registration requested during a Send must count only for a later Send",
						ui, g.id, u.val, g.d, g.addInv, f)
					return
				}
				if gval != 0 && gval != u.val {
					simrt.Failf("C08.split", "group %d registered %d units with one Add, yet they received values of different Sends (%d and %d)", g.id, g.d, gval, u.val)
					return
				}
				gval = u.val
			}
			// every Send that began after the registration was complete must find the unit already
			// served (by a Send that did not begin after it returned), being served by it, or leaving
			for _, s := range r.sends {
				if !s.done || !(g.addRet < s.inv) {
					continue
				}
				ok := false
				if u.got {
					w := byVal[u.val]
					ok = !(w.inv > s.ret)
				}
				if u.dereg && u.deregInv < s.ret {
					ok = true
				}
				if !ok {
					what := "never received anything"
					if u.got {
						what = fmt.Sprintf("received %d, whose Send began only @%d", u.val, byVal[u.val].inv)
					}
					if u.dereg {
						what += fmt.Sprintf(", began to deregister only @%d", u.deregInv)
					}
					simrt.Failf("C08.missed", "unit %d of group %d was registered (Add(%d) returned @%d) before Send(%d) [@%d,@%d]=%d began and did not deregister before it returned, but %s",
						ui, g.id, g.d, g.addRet, s.val, s.inv, s.ret, s.n, what)
					return
				}
				if u.dereg && u.deregInv > s.inv && u.deregInv < s.ret {
					simrt.Probe("deregister_overlaps_send")
					if f := first[s.val]; f != 0 && u.deregInv > f {
						simrt.Probe("deregister_mid_send") // counted, a copy already delivered, so its Add(-k) absorbed a copy
					}
				}
			}
		}
		for _, s := range r.sends {
			if s.done && g.addInv < s.ret && s.inv < g.addRet {
				simrt.Probe("register_during_send")
			}
		}
	}
	for _, s := range r.sends {
		if !s.done {
			continue
		}
		if s.n == 0 {
			simrt.Probe("send_with_no_receivers")
		}
		if receipts[s.val] != s.n {
			simrt.Failf("C08.count", "Send(%d) [@%d,@%d] returned %d but its value was received by %d units", s.val, s.inv, s.ret, s.n, receipts[s.val])
			return
		}
	}
	// Add(0) right after a Send
	for _, s := range r.sends {
		if !s.done || !s.probe {
			continue
		}
		max := 0
		for _, g := range r.groups {
			if g.addInv < s.zRet && !(g.addRet < s.inv) {
				max += g.d
			}
		}
		if s.z < 0 || s.z > max {
			simrt.Failf("C08.nonzero-after-send", "Add(0) [@%d,@%d] right after Send(%d) [@%d,@%d] returned %d, but the positive Adds overlapping or following that Send account for at most %d",
				s.zInv, s.zRet, s.val, s.inv, s.ret, s.z, max)
			return
		}
		if max == 0 {
			simrt.Probe("zero_after_send_checked")
		}
	}
	for i, a := range r.sends {
		for _, b := range r.sends[i+1:] {
			if a.done && b.done && a.inv < b.ret && b.inv < a.ret {
				simrt.Probe("concurrent_sends")
			}
		}
	}
}

// c08Buffered: buffered channel, receivers never deregister, so only the counting clauses apply:
// every Send's return value equals the number of copies of its value that are eventually received,
// a Send counts every unit registered before it began that no earlier Send counted, the count is 0
// afterwards, nobody blocks for ever.
func c08Buffered() {
	capN := simrt.DrawRange(1, 4)
	cc := bigbuff.NewChanCaster(make(chan int, capN))
	unit := time.Microsecond
	type grp struct {
		d              int
		pre            pause
		addInv, addRet int64
		vals           []int
		done           bool
	}
	nRecv := simrt.DrawRange(1, 3)
	var groups []*grp
	plans := make([][]*grp, nRecv)
	for i := range plans {
		for k := simrt.DrawRange(1, 2); k > 0; k-- {
			g := &grp{d: simrt.DrawRange(1, 3), pre: drawPause()}
			plans[i] = append(plans[i], g)
			groups = append(groups, g)
		}
	}
	var sends []*ccSend
	nSend := simrt.DrawRange(1, 2)
	sendPlans := make([][]*ccSend, nSend)
	for i := range sendPlans {
		for k := simrt.DrawRange(1, 3); k > 0; k-- {
			sendPlans[i] = append(sendPlans[i], &ccSend{val: (i+1)*100 + k, pre: drawPause()})
		}
	}
	for i := range plans {
		i := i
		go func() {
			defer ccGuard(fmt.Sprintf("receiver task %d", i))
			for _, g := range plans[i] {
				g.pre.do(unit)
				g.addInv = simrt.Stamp()
				cc.Add(g.d)
				g.addRet = simrt.Stamp()
				for u := 0; u < g.d; u++ {
					g.vals = append(g.vals, <-cc.C)
				}
				g.done = true
			}
		}()
	}
	sendersLeft := nSend
	for i := range sendPlans {
		i := i
		go func() {
			defer ccGuard(fmt.Sprintf("sender %d", i))
			for _, s := range sendPlans[i] {
				s.pre.do(unit)
				sends = append(sends, s)
				s.inv = simrt.Stamp()
				s.n = cc.Send(s.val)
				s.ret = simrt.Stamp()
				s.done = true
			}
			sendersLeft--
		}()
	}
	simrt.Quiesce(-1)
	if simrt.Failed() {
		return
	}
	if sendersLeft != 0 {
		simrt.Failf("C08.blocked", "buffered channel (cap %d), receivers never deregister: quiescent and %d sender(s) are still inside Send", capN, sendersLeft)
		return
	}
	// flush: units registered after the last Send are served by further Sends of the main task (a
	// receiver task registers its next group only when the previous one is complete, so this may take
	// several rounds; every round must complete at least one group)
	undone := func() int {
		n := 0
		for _, g := range groups {
			if !g.done {
				n++
			}
		}
		return n
	}
	for k := 0; undone() > 0; k++ {
		before := undone()
		flush := &ccSend{val: 900 + k}
		sends = append(sends, flush)
		func() {
			defer ccGuard("main task (flush Send)")
			flush.inv = simrt.Stamp()
			flush.n = cc.Send(flush.val)
			flush.ret = simrt.Stamp()
			flush.done = true
		}()
		simrt.Quiesce(-1)
		if simrt.Failed() {
			return
		}
		if undone() >= before {
			break
		}
	}
	receipts := map[int]int{}
	for i, g := range groups {
		if !g.done {
			simrt.Failf("C08.blocked", "buffered channel (cap %d): quiescent after a final Send, and group %d (Add(%d) returned @%d) has received only %v", capN, i, g.d, g.addRet, g.vals)
			return
		}
		for _, v := range g.vals {
			receipts[v]++
		}
	}
	for _, s := range sends {
		if receipts[s.val] != s.n {
			simrt.Failf("C08.count", "buffered channel (cap %d): Send(%d) returned %d but its value was received %d times", capN, s.val, s.n, receipts[s.val])
			return
		}
		// units registered before this Send began are counted by it or by a Send that began before it returned
		before, others := 0, 0
		for _, g := range groups {
			if g.addRet < s.inv {
				before += g.d
			}
		}
		for _, w := range sends {
			if w != s && w.inv < s.ret {
				others += w.n
			}
		}
		if s.n < before-others {
			simrt.Failf("C08.missed", "buffered channel: Send(%d) [@%d,@%d] returned %d although %d units were registered before it began and the other Sends that could have counted them returned %d in total",
				s.val, s.inv, s.ret, s.n, before, others)
			return
		}
	}
	if n := cc.Add(0); n != 0 {
		simrt.Failf("C08.final-count", "buffered channel: all units served, Add(0)=%d", n)
		return
	}
	simrt.Probe("buffered_round_ok")
}

// expectPanic runs f and reports whether it panicked.
func expectPanic(f func()) (panicked bool) {
	defer func() {
		if p := recover(); p != nil {
			if fmt.Sprintf("%T", p) == "simrt.abortRun" {
				panic(p)
			}
			panicked = true
		}
	}()
	f()
	return false
}

// c08Misuse: the panic clauses.
//
// Variant 0/1 (out-of-range delta, positive / negative): issued by a separate task at an arbitrary
// moment of a normal round (u patient units, one Send). It must panic; the code rejects it before
// touching any state, so the round must complete exactly as if nothing had happened.
//
// Variant 2 (unbalanced negative Add): at a quiet moment with c ∈ {0,1,2} units registered and no Send
// in flight, Add(-(c+k)). Variant 3 (overflow): count brought to exactly MaxInt32 by a legal Add, then
// Add(+k). The offending call must panic. It corrupts the packed state, so later ordinary calls
// (Send, Add(0), Add(±1)) must panic as well. History: the library used to have no 'broken' latch; a
// later call in the direction opposite to the misuse panicked itself but moved the packed state back
// into the valid range, after which calls succeeded again (finding D4, fixed in /repo). The plain
// harness asserts panics up to and including the first call in the opposite direction; with
// literal=true (harness C08/misuse-literal) every later call is asserted (check C08.misuse-healed).
func c08Misuse(literal bool) {
	cc := bigbuff.NewChanCaster(make(chan int))
	variant := simrt.Draw(6)
	c := simrt.DrawRange(0, 2)
	extra := []int{1, 1, 2, math.MaxInt32}[simrt.Draw(4)]
	wide := 0 // out-of-range deltas beyond 32 bits (int is 64 bits wide here)
	if simrt.Chance(1, 2) {
		wide = simrt.DrawRange(1, 4)
	}
	nLater := simrt.DrawRange(1, 5)
	later := make([]int, nLater) // 0 Send, 1 Add(0), 2 Add(1), 3 Add(-1)
	for i := range later {
		later[i] = simrt.Draw(4)
	}
	stallM := simrt.DrawRange(0, 30)
	stallS := simrt.DrawRange(0, 10)
	stop := make(chan struct{})
	corrupted := false // set right before the state-corrupting call
	healedMaybe := false
	got := make([]int, c)
	unitDone := 0
	startUnits := func() {
		for i := 0; i < c; i++ {
			i := i
			cc.Add(1)
			go func() {
				defer func() { unitDone++ }()
				select {
				case v := <-cc.C:
					got[i] = v
				case <-stop:
					p := expectPanic(func() { cc.Add(-1) })
					if corrupted && !healedMaybe && !p {
						simrt.Failf("C08.misuse-not-sticky", "after the misuse a standing unit deregistered with Add(-1) and the call did not panic")
					}
					if !corrupted && p {
						simrt.Failf("C08.panic", "Add(-1) of a registered unit panicked")
					}
				}
			}()
		}
	}
	switch variant {
	case 0, 1:
		if c == 0 {
			c = 1
			got = make([]int, c)
		}
		delta := math.MaxInt32 + extra
		switch wide {
		case 1:
			delta = 1 << 32 // low 32 bits zero: looks like Add(0) if truncated
		case 2:
			delta = 1<<32 + extra%1000 // low 32 bits small: looks like a legal Add if truncated
		case 3:
			delta = 1<<40 + math.MaxInt32
		case 4:
			delta = math.MaxInt // its negation (variant 1) is MinInt+1; MinInt itself is used below
		}
		if wide != 0 {
			simrt.Probe("oob_delta_beyond_32_bits")
		}
		if variant == 1 {
			delta = -delta
			if wide == 4 {
				delta = math.MinInt // -MinInt == MinInt: a range check done after negating never sees it
			}
		}
		if func() bool { defer ccGuard("main task (registering units)"); startUnits(); return true }() != true {
			return
		}
		n := -1
		go func() {
			defer ccGuard("sender")
			simrt.Stall(stallS)
			n = cc.Send(7)
		}()
		go func() {
			simrt.Stall(stallM)
			simrt.Fault("misuse")
			if !expectPanic(func() { cc.Add(delta) }) {
				simrt.Failf("C08.oob-no-panic", "Add(%d) did not panic (valid deltas are within ±MaxInt32)", delta)
			}
		}()
		simrt.Quiesce(-1)
		if simrt.Failed() {
			return
		}
		if n != c {
			simrt.Failf("C08.oob-broke-caster", "an out-of-range Add(%d) was issued (and rejected) during a round with %d registered patient units; Send returned %d (-1: still blocked), want %d", delta, c, n, c)
			return
		}
		for i, v := range got {
			if v != 7 {
				simrt.Failf("C08.oob-broke-caster", "unit %d received %d, want 7", i, v)
				return
			}
		}
		z := -1
		if expectPanic(func() { z = cc.Add(0) }) || z != 0 {
			simrt.Failf("C08.oob-broke-caster", "after the round Add(0) returned %d (-1: it panicked), want 0", z)
			return
		}
		simrt.Probe("oob_delta_rejected")
		close(stop)
		return
	case 2:
		if func() bool { defer ccGuard("main task (registering units)"); startUnits(); return true }() != true {
			return
		}
		simrt.Quiesce(-1)
		delta := -(c + extra)
		if extra == math.MaxInt32 {
			delta = -math.MaxInt32 // still in range as a delta, unbalanced as long as fewer are registered
		}
		simrt.Fault("misuse")
		corrupted = true
		if !expectPanic(func() { cc.Add(delta) }) {
			simrt.Failf("C08.misuse-no-panic", "no Send in flight, %d unit(s) registered: the unbalanced Add(%d) did not panic", c, delta)
			return
		}
		simrt.Probe("unbalanced_negative_add")
	case 3:
		c = 0
		first := math.MaxInt32
		if simrt.Chance(1, 2) {
			// two legal steps up to the limit
			if p := expectPanic(func() { cc.Add(5) }); p {
				simrt.Failf("C08.panic", "Add(5) on an idle caster panicked")
				return
			}
			first -= 5
		}
		var res int
		if expectPanic(func() { res = cc.Add(first) }) || res != math.MaxInt32 {
			simrt.Failf("C08.panic", "Add(%d) bringing the count to exactly MaxInt32 panicked or returned %d", first, res)
			return
		}
		delta := extra
		simrt.Fault("misuse")
		corrupted = true
		if !expectPanic(func() { cc.Add(delta) }) {
			simrt.Failf("C08.misuse-no-panic", "MaxInt32 receivers registered: the overflowing Add(%d) did not panic", delta)
			return
		}
		simrt.Probe("overflowing_add")
	case 5:
		// exactly MaxInt32 registered is a legal state: a Send must start delivering (one real receiver
		// takes the first copy; the rest of the registrations are never served, so the Send is released at
		// the end by closing the channel, which makes its pending send panic as documented for closed
		// channels)
		c = 0
		var res int
		if expectPanic(func() { res = cc.Add(math.MaxInt32) }) || res != math.MaxInt32 {
			simrt.Failf("C08.panic", "Add(MaxInt32) on an idle caster panicked or returned %d", res)
			return
		}
		got5, sendPanicked, sendReturned := 0, false, false
		go func() { got5 = <-cc.C }()
		go func() {
			sendPanicked = expectPanic(func() { cc.Send(7) })
			sendReturned = true
		}()
		simrt.Quiesce(-1)
		if got5 != 7 || sendReturned {
			simrt.Failf("C08.missed", "MaxInt32 receivers are registered (the legal maximum): Send(7) must start delivering; the one real receiver got %d and Send returned=%v panicked=%v", got5, sendReturned, sendPanicked)
			return
		}
		simrt.Probe("send_at_exactly_max_receivers")
		close(cc.C)
		simrt.Quiesce(-1)
		close(stop)
		return
	case 4:
		// two in-range positive Adds issued concurrently whose sum exceeds MaxInt32: whichever takes
		// effect second overflows, so at least one of the two calls must panic
		c = 0
		a := math.MaxInt32 - simrt.Draw(3)
		bb := 3 + simrt.Draw(3)
		pa, pb, da, db := false, false, false, false
		simrt.Fault("misuse")
		corrupted = true
		go func() { pa = expectPanic(func() { cc.Add(a) }); da = true }()
		go func() { simrt.Stall(stallM % 6); pb = expectPanic(func() { cc.Add(bb) }); db = true }()
		simrt.Quiesce(-1)
		if !da || !db {
			simrt.Failf("C08.blocked", "two concurrent positive Adds have not both returned at quiescence")
			return
		}
		if !pa && !pb {
			simrt.Failf("C08.misuse-no-panic", "concurrent Add(%d) and Add(%d) (sum beyond MaxInt32) both returned without a panic", a, bb)
			return
		}
		simrt.Probe("concurrent_overflowing_adds")
	}
	// later ordinary calls
	opposite := 2 // after an unbalanced negative Add, Add(+1) is the opposite direction
	if variant == 3 || variant == 4 {
		opposite = 3
	}
	names := []string{"Send(8)", "Add(0)", "Add(1)", "Add(-1)"}
	for i, op := range later {
		if op == 0 && healedMaybe && (variant == 3 || variant == 4) {
			break // a Send on a caster that believes in 2^31 receivers would never end
		}
		p := expectPanic(func() {
			switch op {
			case 0:
				cc.Send(8)
			case 1:
				cc.Add(0)
			case 2:
				cc.Add(1)
			case 3:
				cc.Add(-1)
			}
		})
		if !p {
			if healedMaybe {
				simrt.Failf("C08.misuse-healed", "after the misuse, later call #%d %s did not panic (calls so far: %v): the statement says every later call panics", i+1, names[op], later[:i+1])
			} else {
				simrt.Failf("C08.misuse-not-sticky", "after the misuse, later call #%d %s did not panic (calls so far, 0=Send 1=Add(0) 2=Add(1) 3=Add(-1): %v)", i+1, names[op], later[:i+1])
			}
			return
		}
		simrt.Probe("later_call_panicked")
		if op == opposite {
			healedMaybe = true
			if !literal {
				break
			}
		}
	}
	close(stop)
	simrt.Quiesce(-1)
}
