package harness

import (
	"context"

	"bbsim/simrt"

	bigbuff "github.com/joeycumines/go-bigbuff"
)

// C02/range-readahead: Buffer.Range over a consumer whose callback sometimes reads ahead with the
// consumer's own Get (only when Diff says a value is there), while a producer may still be adding values.
// The reads of the callback belong to the same uncommitted window and are committed with the value in
// flight; Range stops when it reaches the end of the buffer, however the values up to there were read:
// it never blocks, every value is seen once and in order, and the next Get returns the value after the
// last one seen.
func init() {
	Register(Harness{Prop: "C02", Name: "C02/range-readahead", Run: c02RangeReadahead, Weight: 1})
}

func c02RangeReadahead() {
	b := new(bigbuff.Buffer)
	defer b.Close()
	c, err := b.NewConsumer()
	if err != nil {
		simrt.Failf("C02.setup", "NewConsumer: %v", err)
		return
	}
	ctx := context.Background()
	n := simrt.DrawRange(1, 8)
	for i := 0; i < n; i++ {
		if err := b.Put(ctx, i); err != nil {
			simrt.Failf("C02.setup", "Put: %v", err)
			return
		}
	}
	more := simrt.Draw(4) // values put while the Range is under way
	total := n
	if more > 0 {
		go func() {
			for i := 0; i < more; i++ {
				drawPause().do(1000)
				if b.Put(ctx, total) != nil {
					return
				}
				total++
			}
		}()
	}
	var seen []int
	ahead := 0
	returned := false
	var rerr error
	go func() {
		rerr = b.Range(ctx, c, func(index int, value interface{}) bool {
			seen = append(seen, value.(int))
			for simrt.Chance(1, 3) {
				if d, ok := b.Diff(c); !ok || d <= 0 {
					break
				}
				v, err := c.Get(ctx)
				if err != nil {
					simrt.Failf("C02.get-error", "Get inside the Range callback, Diff > 0: %v", err)
					return false
				}
				seen = append(seen, v.(int))
				ahead++
			}
			return true
		})
		returned = true
	}()
	simrt.Quiesce(-1)
	if simrt.Failed() {
		return
	}
	if ahead > 0 {
		simrt.Probe("range_callback_read_ahead")
	}
	if !returned {
		simrt.Failf("C02.range-blocked", "quiescent: Buffer.Range has not returned: %d values were put (%d before it began), its callback and the callback's own Gets have seen %v (%d read ahead): at the end of the buffer Range stops instead of blocking", total, n, seen, ahead)
		return
	}
	if rerr != nil {
		simrt.Failf("C02.range-error", "Buffer.Range returned %v", rerr)
		return
	}
	for i, v := range seen {
		if v != i {
			simrt.Failf("C02.order", "values seen by the Range callback and its own Gets: %v (position %d holds %d)", seen, i, v)
			return
		}
	}
	if len(seen) < n {
		simrt.Failf("C02.range-short", "Buffer.Range returned nil after %d values %v, %d were in the buffer before it began", len(seen), seen, n)
		return
	}
	// everything seen is committed: the next read is the next value
	if len(seen) == total {
		if err := b.Put(ctx, total); err != nil {
			simrt.Failf("C02.setup", "Put: %v", err)
			return
		}
		total++
	}
	v, err := c.Get(ctx)
	if err != nil || v.(int) != len(seen) {
		simrt.Failf("C02.commit-lost", "after Buffer.Range returned nil having seen %v, Get returned (%v, %v), want %d", seen, v, err, len(seen))
		return
	}
	if err := c.Commit(); err != nil {
		simrt.Failf("C02.commit-error", "Commit with one read pending: %v", err)
	}
}
