package harness

import (
	"bbsim/simrt"
)

func init() {
	Register(Harness{Prop: "C01", Name: "C01/fifo", Run: func() { c01Run(false) }, Weight: 3})
	Register(Harness{Prop: "C01", Name: "C01/fifo-trim", Run: func() { c01Run(true) }, Weight: 1})
}

// consumer program for C01/C03: a list of single-user operations.
type consPlan struct {
	diffWatch  []pause // Diff calls made by a second goroutine while the consumer's user works (C03)
	startPause pause
	ops        []int // 0 get, 1 commit, 2 rollback, 3 get-with-cancel, 4 diff
	pauses     []pause
	cancelAt   []int
	closeEnd   bool
}

func drawConsPlan(maxOps int) consPlan {
	p := consPlan{startPause: drawPause(), closeEnd: simrt.Chance(1, 3)}
	n := simrt.DrawRange(1, maxOps*simrt.Scale())
	for i := 0; i < n; i++ {
		var op int
		switch x := simrt.Draw(12); {
		case x < 6:
			op = 0
		case x < 8:
			op = 1
		case x < 9:
			op = 2
		case x < 10:
			op = 3
		default:
			op = 4
		}
		p.ops = append(p.ops, op)
		p.pauses = append(p.pauses, drawPause())
		p.cancelAt = append(p.cancelAt, simrt.DrawRange(0, 6))
	}
	return p
}

// runConsPlan executes a plan on a fresh consumer from its own task.
func (r *bufRun) runConsPlan(p consPlan) {
	r.tasksLeft++
	go func() {
		defer func() { r.tasksLeft-- }()
		p.startPause.do(r.unit)
		k := r.newConsumer(false, false)
		if k == nil {
			return
		}
		if len(p.diffWatch) > 0 {
			r.tasksLeft++
			go func() {
				defer func() { r.tasksLeft-- }()
				for _, pa := range p.diffWatch {
					pa.do(r.unit)
					if k.closeInv != 0 || r.stopInv != 0 {
						return
					}
					w := &bufOp{kind: "diff", task: simrt.CurrentID()}
					w.inv = simrt.Stamp()
					w.n, w.known = r.b.Diff(k.c)
					w.ret = simrt.Stamp()
					k.watch = append(k.watch, w)
					simrt.Probe("diff_by_second_goroutine")
				}
			}()
		}
		for i, op := range p.ops {
			if simrt.Failed() {
				return
			}
			p.pauses[i].do(r.unit)
			switch op {
			case 0, 3:
				ca := -1
				if op == 3 {
					ca = p.cancelAt[i]
				}
				o := r.get(k, ca)
				if !o.ok && !o.ctxErr {
					k.stopped = true // evicted under it (only legal with a forced trim): C03 judges
					sz := r.b.Size()
					if d, known := r.b.Diff(k.c); !known || d <= sz {
						simrt.Failf(r.mode.prop+".error-but-not-behind", "consumer %d: Get failed with a non-context error, but Size()=%d then Diff()=%d (known=%v) say its next value is still retained", k.id, sz, d, known)
						return
					}
					// and every later Get keeps failing
					for n := 0; n < 2; n++ {
						if o2 := r.get(k, -1); o2.ok {
							simrt.Failf(r.mode.prop+".behind-but-served", "consumer %d: after an eviction error a later Get returned %v", k.id, o2.v)
							return
						}
					}
				}
				if !o.ok && r.stopInv != 0 {
					i = len(p.ops)
				}
			case 1:
				r.commit(k)
			case 2:
				r.rollback(k)
			case 4:
				r.diff(k)
			}
			if k.stopped || r.stopInv != 0 {
				break
			}
		}
		r.rollback(k) // leave nothing uncommitted behind (precondition of Close)
		if p.closeEnd {
			r.closeCons(k)
		}
	}()
}

func c01Run(trim bool) {
	r := newBufRun(bufMode{prop: "C01", forcedTrim: trim})
	withAuditor := simrt.Chance(3, 4) && !r.huge // nobody reads a few thousand values one by one
	var aud *bufCons
	if withAuditor {
		aud = r.newConsumer(true, false)
		if aud == nil {
			return
		}
	}
	nCons := simrt.DrawRange(0, 4+2*(simrt.Scale()-1))
	plans := make([]consPlan, nCons)
	for i := range plans {
		plans[i] = drawConsPlan(10)
	}
	r.producers(3)
	if aud != nil {
		r.startAuditor(aud)
	}
	for _, p := range plans {
		r.runConsPlan(p)
	}
	// a consumer shared by two goroutines that only Get (and commit): together they must receive a
	// gap-free, duplicate-free run
	var shared *bufCons
	if simrt.Chance(1, 3) {
		gets := [2]int{simrt.DrawRange(1, 5), simrt.DrawRange(1, 5)}
		commits := [2]bool{simrt.Chance(1, 2), simrt.Chance(1, 2)}
		pa := [2]pause{drawPause(), drawPause()}
		r.tasksLeft++
		go func() {
			defer func() { r.tasksLeft-- }()
			pa[0].do(r.unit)
			shared = r.newConsumer(false, true)
			if shared == nil {
				return
			}
			simrt.Probe("shared_consumer")
			for t := 0; t < 2; t++ {
				t := t
				r.tasksLeft++
				go func() {
					defer func() { r.tasksLeft-- }()
					pa[t].do(r.unit)
					for i := 0; i < gets[t]; i++ {
						if o := r.get(shared, -1); !o.ok {
							if !o.ctxErr {
								shared.stopped = true
							}
							return
						}
						if commits[t] {
							r.commit(shared)
						}
					}
				}()
			}
		}()
	}
	r.observer()
	if !r.finish() {
		return
	}
	if shared != nil {
		r.rollback(shared)
	}
	r.snapshot(true)
	if c01Oracle(r) {
		r.shutdown()
	}
}

// firstDeliveries returns a single-user consumer's stream with re-reads after a rollback counted
// once, or reports a duplicate that no rollback explains.
func firstDeliveries(r *bufRun, k *bufCons) ([]Val, bool) {
	var st []Val
	lastAt := map[Val]int{}
	rollbackAfter := -1 // index of the last successful rollback
	for i, op := range k.ops {
		switch {
		case op.kind == "rollback" && op.ok:
			rollbackAfter = i
		case op.kind == "get" && op.ok:
			if at, seen := lastAt[op.v]; seen {
				if rollbackAfter < at {
					simrt.Failf("C01.duplicate", "consumer %d received %v twice (ops %d and %d) with no rollback in between", k.id, op.v, at, i)
					return nil, false
				}
			} else {
				st = append(st, op.v)
			}
			lastAt[op.v] = i
		}
	}
	return st, true
}

func c01Oracle(r *bufRun) bool {
	// (0) the auditor never fails under the default cleaner and sees everything
	for _, k := range r.cons {
		if k.auditor && r.cleaner == "default" && !r.audOK {
			simrt.Failf("C01.loss", "the auditor (created before the first Put, reads everything) obtained fewer than the %d values put", r.total)
			return false
		}
	}
	// sequences: consumer streams and Slice snapshots
	type seq struct {
		what string
		vals []Val
	}
	var seqs []seq
	for _, k := range r.cons {
		if k.shared {
			// concurrent Gets: the order between the two goroutines is not defined, the set is
			seen := map[Val]bool{}
			lo, hi := 1<<30, -1
			for _, op := range k.ops {
				if op.kind != "get" || !op.ok {
					continue
				}
				if seen[op.v] {
					simrt.Failf("C01.duplicate", "shared consumer %d: %v was returned twice although nobody rolled back", k.id, op.v)
					return false
				}
				seen[op.v] = true
				if r.orderOK {
					if p := r.pos[op.v]; p < lo {
						lo = p
					}
					if p := r.pos[op.v]; p > hi {
						hi = p
					}
				}
			}
			if r.orderOK && hi >= 0 && hi-lo+1 != len(seen) {
				simrt.Failf("C01.gap", "shared consumer %d: its two goroutines received %d values spanning positions %d..%d: a value was skipped", k.id, len(seen), lo, hi)
				return false
			}
			continue
		}
		st, ok := firstDeliveries(r, k)
		if !ok {
			return false
		}
		seqs = append(seqs, seq{what: "stream of consumer " + itoa(k.id), vals: st})
	}
	for i, o := range r.obs {
		if o.kind == "slice" {
			seqs = append(seqs, seq{what: "Slice #" + itoa(i), vals: o.vals})
		}
	}
	// (a) one total order: merged successor relation is functional both ways, no repeats in a sequence
	succ := map[Val]Val{}
	pred := map[Val]Val{}
	from := map[Val]string{}
	for _, s := range seqs {
		seen := map[Val]bool{}
		for i, v := range s.vals {
			if seen[v] {
				simrt.Failf("C01.duplicate", "%s contains %v twice: %v", s.what, v, s.vals)
				return false
			}
			seen[v] = true
			if i+1 < len(s.vals) {
				w := s.vals[i+1]
				if x, ok := succ[v]; ok && x != w {
					simrt.Failf("C01.order", "%s has %v followed by %v, but %s has it followed by %v: no single total order", s.what, v, w, from[v], x)
					return false
				}
				if x, ok := pred[w]; ok && x != v {
					simrt.Failf("C01.order", "%s has %v preceded by %v, but elsewhere it is preceded by %v: no single total order", s.what, w, v, x)
					return false
				}
				succ[v], pred[w], from[v] = w, v, s.what
			}
		}
	}
	// (b) observations only of values whose Put had begun; (c) batch contiguity in argument order
	for v, w := range succ {
		pv, pw := r.all[v], r.all[w]
		if v.I+1 < len(pv.vals) {
			if w != pv.vals[v.I+1] {
				simrt.Failf("C01.batch", "%v is followed by %v, but the next value of the same Put call is %v: a batch is not contiguous / in argument order", v, w, pv.vals[v.I+1])
				return false
			}
		} else if pw == pv {
			simrt.Failf("C01.batch", "%v (last of its batch) is followed by %v of the same Put", v, w)
			return false
		} else if w.I != 0 {
			simrt.Failf("C01.batch", "%v is followed by %v, which is not the first value of its Put call", v, w)
			return false
		}
	}
	for _, k := range r.cons {
		for _, op := range k.ops {
			if op.kind == "get" && op.ok && r.all[op.v].inv > op.ret {
				simrt.Failf("C01.invented-value", "consumer %d got %v before its Put was invoked", k.id, op.v)
				return false
			}
		}
	}
	if r.orderOK {
		// every sequence is a contiguous run of the established total order
		for _, s := range seqs {
			for i := 0; i+1 < len(s.vals); i++ {
				if r.pos[s.vals[i+1]] != r.pos[s.vals[i]]+1 {
					simrt.Failf("C01.gap", "%s: %v (position %d) is followed by %v (position %d): not a contiguous run of the put order", s.what,
						s.vals[i], r.pos[s.vals[i]], s.vals[i+1], r.pos[s.vals[i+1]])
					return false
				}
			}
		}
		// (d) real time and program order between Puts; (e) nothing lost
		if len(r.order) != r.total {
			simrt.Failf("C01.loss", "total order has %d values, %d were put", len(r.order), r.total)
			return false
		}
		for _, a := range r.puts {
			for _, b := range r.puts {
				if a == b || len(a.vals) == 0 || len(b.vals) == 0 {
					continue
				}
				if a.ret < b.inv && r.pos[a.vals[0]] > r.pos[b.vals[0]] {
					simrt.Failf("C01.realtime", "Put %d/%d returned before Put %d/%d was invoked, yet its values come later in the order", a.prod, a.call, b.prod, b.call)
					return false
				}
			}
		}
		// (f) start point: a consumer never starts before the head of a Slice that returned before
		// its creation began; under the default cleaner a Slice taken between its creation and its
		// first commit/close starts exactly at the consumer's first value.
		for _, k := range r.cons {
			if k.shared {
				continue
			}
			st, _ := firstDeliveries(r, k)
			if len(st) == 0 {
				continue
			}
			firstCommit := int64(1 << 62)
			for _, op := range k.ops {
				if op.kind == "commit" && op.inv < firstCommit {
					firstCommit = op.inv
				}
			}
			if k.closeInv != 0 && k.closeInv < firstCommit {
				firstCommit = k.closeInv
			}
			for _, o := range r.obs {
				if o.kind != "slice" || len(o.vals) == 0 {
					continue
				}
				if o.ret < k.newInv && r.pos[st[0]] < r.pos[o.vals[0]] {
					simrt.Failf("C01.start", "consumer %d starts at %v (position %d), older than %v, the oldest value retained by a Slice that returned before the consumer was created", k.id, st[0], r.pos[st[0]], o.vals[0])
					return false
				}
				if r.cleaner == "default" && o.inv > k.newRet && o.ret < firstCommit && o.vals[0] != st[0] {
					simrt.Failf("C01.start", "consumer %d starts at %v but a Slice taken after its creation and before its first commit starts at %v", k.id, st[0], o.vals[0])
					return false
				}
			}
		}
		simrt.Probe("order_established")
	} else {
		simrt.Probe("order_unknown")
	}
	return true
}

func itoa(i int) string {
	if i == 0 {
		return "0"
	}
	neg := i < 0
	if neg {
		i = -i
	}
	var b []byte
	for i > 0 {
		b = append([]byte{byte('0' + i%10)}, b...)
		i /= 10
	}
	if neg {
		b = append([]byte{'-'}, b...)
	}
	return string(b)
}
