package harness

import (
	"sync"
	"time"

	"bbsim/simrt"

	bigbuff "github.com/joeycumines/go-bigbuff"
)

// C14 — Workers: exactly-once execution, bounded concurrency, no starvation.
//
// Workload: 1-6 caller tasks, each 1-3 Calls (or Wrap()()) with count arguments that are all equal,
// arbitrary, or decreasing; functions have scheduling points inside and some are held on one of two
// harness gates, released by the main task one after the other at quiescence; 0-2 tasks call Wait,
// 0-2 tasks sample Count.
//
// Checks:
//
//	C14.ran-twice           a function was started a second time
//	C14.wrong-result        Call returned something else than its own function's (result, error), or
//	                        returned without the function having run exactly once
//	C14.too-many-running    at a function start, more functions are running than the largest count
//	                        passed by any Call invoked so far
//	C14.starved             quiescent: a function is queued while fewer functions are running (all of
//	                        them held by the harness) than the smallest count ever requested; or,
//	                        with nothing held, a Call has not returned
//	C14.wait-returned-early Wait returned although at least one function was running at every instant
//	                        between its invocation and its return
//	C14.wait-stuck          quiescent, nothing running, every Call returned: Wait has not returned
//	C14.count-out-of-range  Count() below the least number of functions running during the call, or
//	                        above the largest count requested so far
//	C14.count-not-zero      Count() != 0 right after Wait returned with no Call in flight
//	C14.fresh-call          after everything drained, a new Call(1, f) does not run f and return its result
func init() {
	Register(Harness{Prop: "C14", Name: "C14/pool", Run: c14Pool, Weight: 4})
}

type wkRes struct{ id int }
type wkErr struct{ id int }

func (e *wkErr) Error() string { return "harness error" }

type wkCall struct {
	id, count  int
	wrap       bool
	pre, body  pause
	lockPoint  bool
	gate       int // -1: not held
	errKind    int
	inv, ret   int64
	invoked    bool
	returned   bool
	runs       int
	start, end int64
	res        interface{}
	err        error
}

type wkObs struct{ minRunning int }

type wkWorld struct {
	w        *bigbuff.Workers
	calls    []*wkCall
	running  int
	maxReq   int
	minReq   int
	lastReq  int
	inflight int // Calls invoked and not yet returned
	obs      []*wkObs
	gates    [2]chan struct{}
	open     [2]bool
	mu       sync.Mutex
	unit     time.Duration
}

func (x *wkWorld) watch() *wkObs {
	o := &wkObs{minRunning: x.running}
	x.obs = append(x.obs, o)
	return o
}

func (x *wkWorld) unwatch(o *wkObs) {
	for i, p := range x.obs {
		if p == o {
			x.obs = append(append([]*wkObs(nil), x.obs[:i]...), x.obs[i+1:]...)
			return
		}
	}
}

func (x *wkWorld) pending() int {
	n := 0
	for _, c := range x.calls {
		if c.invoked && c.runs == 0 {
			n++
		}
	}
	return n
}

func (x *wkWorld) fn(c *wkCall) func() (interface{}, error) {
	return func() (interface{}, error) {
		c.runs++
		c.start = simrt.Stamp()
		simrt.Logf("fn %d starts: stamp %d, running %d, max count so far %d", c.id, c.start, x.running+1, x.maxReq)
		if c.runs > 1 {
			simrt.Failf("C14.ran-twice", "function of call %d was started %d times", c.id, c.runs)
		}
		x.running++
		if x.running > x.maxReq {
			simrt.Failf("C14.too-many-running", "function of call %d started at stamp %d as number %d running at once, but the largest count any Call has passed so far is %d",
				c.id, c.start, x.running, x.maxReq)
		}
		if x.running > 1 {
			simrt.Probe("functions_running_concurrently")
		}
		c.body.do(x.unit)
		if c.lockPoint {
			x.mu.Lock()
			x.mu.Unlock()
		}
		if c.gate >= 0 && !x.open[c.gate] {
			simrt.Probe("function_held_on_gate")
			<-x.gates[c.gate]
		}
		switch c.errKind {
		case 0:
			c.res = &wkRes{c.id}
		case 1:
			c.err = &wkErr{c.id}
		default:
			c.res, c.err = &wkRes{c.id}, &wkErr{c.id}
		}
		if x.running > x.lastReq && x.pending() > 0 {
			// this worker is about to find count > target with a non-empty queue
			simrt.Probe("worker_exit_with_lower_target")
		}
		x.running--
		for _, o := range x.obs {
			if x.running < o.minRunning {
				o.minRunning = x.running
			}
		}
		c.end = simrt.Stamp()
		simrt.Logf("fn %d returns: stamp %d", c.id, c.end)
		return c.res, c.err
	}
}

func (x *wkWorld) call(c *wkCall) {
	f := x.fn(c)
	if c.count > x.maxReq {
		x.maxReq = c.count
	}
	if x.minReq == 0 || c.count < x.minReq {
		x.minReq = c.count
	}
	if x.running >= c.count {
		simrt.Probe("call_while_workers_busy")
	}
	if c.count < x.lastReq && x.running > c.count {
		simrt.Probe("count_lowered_below_running")
	}
	if x.inflight == 0 && x.lastReq != 0 {
		simrt.Probe("call_after_pool_idle")
	}
	x.lastReq = c.count
	x.inflight++
	c.invoked = true
	c.inv = simrt.Stamp()
	simrt.Logf("call %d invoked: count %d, stamp %d", c.id, c.count, c.inv)
	var r interface{}
	var err error
	if c.wrap {
		r, err = x.w.Wrap(c.count, f)()
	} else {
		r, err = x.w.Call(c.count, f)
	}
	c.ret = simrt.Stamp()
	simrt.Logf("call %d returned (%v,%v): stamp %d", c.id, r, err, c.ret)
	x.inflight--
	c.returned = true
	if c.runs != 1 || c.end == 0 {
		simrt.Failf("C14.wrong-result", "call %d returned (%v,%v) although its function had run %d times (finished: %v)", c.id, r, err, c.runs, c.end != 0)
		return
	}
	if r != c.res || err != c.err {
		simrt.Failf("C14.wrong-result", "call %d returned (%v,%v), its function returned (%v,%v)", c.id, r, err, c.res, c.err)
	}
}

func c14Pool() {
	x := &wkWorld{w: new(bigbuff.Workers), unit: time.Microsecond}
	x.gates[0], x.gates[1] = make(chan struct{}), make(chan struct{})
	mode := simrt.Draw(3) // 0: every caller passes N  1: arbitrary  2: decreasing
	n0 := simrt.DrawRange(1, 4)
	nCallers := simrt.DrawRange(1, 6+3*(simrt.Scale()-1))
	holdProb := simrt.Draw(3) // 0: nothing held
	budget := 12
	tasks := make([][]*wkCall, nCallers)
	cur := 4
	for i := range tasks {
		for k := simrt.DrawRange(1, 3); k > 0 && budget > 0; k-- {
			budget--
			c := &wkCall{id: len(x.calls), pre: drawPause(), body: drawPause(), lockPoint: simrt.Chance(1, 4), gate: -1, wrap: simrt.Chance(1, 5)}
			switch mode {
			case 0:
				c.count = n0
			case 1:
				c.count = simrt.DrawRange(1, 4)
			default:
				// non-increasing over the whole program in generation order; tasks interleave freely
				if cur > 1 && simrt.Chance(1, 2) {
					cur -= simrt.DrawRange(1, cur-1)
				}
				c.count = cur
			}
			if holdProb > 0 && simrt.Chance(holdProb, 4) {
				c.gate = simrt.Draw(2)
			}
			if simrt.Chance(1, 4) {
				c.errKind = simrt.DrawRange(1, 2)
			}
			x.calls = append(x.calls, c)
			tasks[i] = append(tasks[i], c)
		}
	}
	type waiter struct {
		pre      pause
		inv, ret int64
		done     bool
	}
	waiters := make([]*waiter, simrt.Draw(3))
	for i := range waiters {
		waiters[i] = &waiter{pre: drawPause()}
	}
	type counter struct {
		pre  []pause
		done bool
	}
	counters := make([]*counter, simrt.Draw(3))
	for i := range counters {
		k := &counter{}
		for n := simrt.DrawRange(1, 3); n > 0; n-- {
			k.pre = append(k.pre, drawPause())
		}
		counters[i] = k
	}
	for _, t := range tasks {
		t := t
		go func() {
			for _, c := range t {
				c.pre.do(x.unit)
				x.call(c)
				if simrt.Failed() {
					return
				}
			}
		}()
	}
	doWait := func(wt *waiter) {
		if x.running > 0 {
			simrt.Probe("wait_while_functions_running")
		}
		o := x.watch()
		wt.inv = simrt.Stamp()
		x.w.Wait()
		wt.ret = simrt.Stamp()
		simrt.Logf("Wait invoked at %d returned at %d, least running in between %d", wt.inv, wt.ret, o.minRunning)
		x.unwatch(o)
		if o.minRunning > 0 {
			simrt.Failf("C14.wait-returned-early", "Wait (invoked at stamp %d, returned at %d) returned although at least %d function(s) were running at every instant in between", wt.inv, wt.ret, o.minRunning)
		}
		wt.done = true
	}
	doCount := func() int {
		o := x.watch()
		n := x.w.Count()
		x.unwatch(o)
		if n < o.minRunning || n > x.maxReq {
			simrt.Failf("C14.count-out-of-range", "Count() = %d, but at least %d functions were running throughout the call and the largest count requested so far is %d", n, o.minRunning, x.maxReq)
		}
		return n
	}
	// one wrapped function invoked by several tasks at about the same time: every invocation is a Call
	// of its own (its own execution, its own result)
	if simrt.Chance(1, 4) {
		n := simrt.DrawRange(1, 3)
		if mode == 0 {
			n = n0
		}
		execs := 0
		body := drawPause()
		wrapped := x.w.Wrap(n, func() (interface{}, error) {
			execs++
			id := execs
			x.running++
			if x.running > x.maxReq {
				simrt.Failf("C14.too-many-running", "an execution of the shared wrapped function started as number %d running at once, but the largest count any Call has passed so far is %d", x.running, x.maxReq)
			}
			body.do(x.unit)
			x.running--
			for _, o := range x.obs {
				if x.running < o.minRunning {
					o.minRunning = x.running
				}
			}
			return &wkRes{1000 + id}, nil
		})
		k := simrt.DrawRange(2, 3)
		seen := map[int]bool{}
		returned := 0
		for i := 0; i < k; i++ {
			pre := drawPause()
			go func() {
				pre.do(x.unit)
				if n > x.maxReq {
					x.maxReq = n
				}
				if x.minReq == 0 || n < x.minReq {
					x.minReq = n
				}
				x.lastReq = n
				x.inflight++
				simrt.Probe("wrapped_function_invoked_concurrently")
				r, err := wrapped()
				x.inflight--
				returned++
				res, ok := r.(*wkRes)
				if err != nil || !ok || res == nil || res.id <= 1000 || res.id > 1000+execs || seen[res.id] {
					simrt.Failf("C14.wrong-result", "an invocation of a wrapped function shared by %d tasks returned (%v, %v): every invocation must return the result of an execution of its own (%d executions so far, results already handed out: %v)", k, r, err, execs, seen)
					return
				}
				seen[res.id] = true
				if returned == k && execs != k {
					simrt.Failf("C14.wrong-result", "%d invocations of the shared wrapped function have returned, but it was executed %d times", k, execs)
				}
			}()
		}
	}
	// an invalid call (count <= 0, or a nil function) panics as documented; its caller recovers and
	// everybody else carries on: it must not disturb the valid calls that are queued or running
	if simrt.Chance(1, 4) {
		pre := drawPause()
		stall := simrt.DrawRange(0, 60)
		bad := []int{0, -1, -4}[simrt.Draw(3)]
		nilFn := simrt.Chance(1, 4)
		go func() {
			pre.do(x.unit)
			simrt.Stall(stall)
			if x.pending() > 0 {
				simrt.Probe("invalid_call_while_functions_queued")
			}
			simrt.Fault("invalid_call")
			expectPanic(func() {
				if nilFn {
					_, _ = x.w.Call(x.maxReq+1, nil)
				} else {
					_, _ = x.w.Call(bad, func() (interface{}, error) { return nil, nil })
				}
			})
		}()
	}
	for _, wt := range waiters {
		wt := wt
		go func() {
			wt.pre.do(x.unit)
			doWait(wt)
		}()
	}
	for _, k := range counters {
		k := k
		go func() {
			for _, p := range k.pre {
				p.do(x.unit)
				doCount()
				if simrt.Failed() {
					return
				}
			}
			k.done = true
		}()
	}
	// gates are opened one after the other, each time at quiescence
	for g := 0; g <= 2; g++ {
		simrt.Quiesce(-1)
		if simrt.Failed() {
			return
		}
		held := x.running // at quiescence a running function can only be blocked on a closed gate
		if p := x.pending(); p > 0 {
			if held < x.minReq {
				simrt.Failf("C14.starved", "quiescent (gates open: %v): %d function(s) queued, only %d function(s) running (all held by the harness), although every Call asked for at least %d workers",
					x.open, p, held, x.minReq)
				return
			}
			simrt.Probe("queue_waits_for_held_workers")
		}
		if held == 0 {
			for _, c := range x.calls {
				if c.invoked && !c.returned {
					simrt.Failf("C14.starved", "quiescent, no function held: call %d (count %d) has not returned (function ran %d times)", c.id, c.count, c.runs)
					return
				}
			}
		}
		if g < 2 {
			simrt.Logf("opening gate %d (running %d, queued %d)", g, x.running, x.pending())
			x.open[g] = true
			close(x.gates[g])
		}
	}
	for _, c := range x.calls {
		if !c.invoked || !c.returned {
			simrt.Failf("C14.starved", "quiescent, all gates open: call %d (count %d) invoked=%v returned=%v", c.id, c.count, c.invoked, c.returned)
			return
		}
	}
	for i, wt := range waiters {
		if !wt.done {
			simrt.Failf("C14.wait-stuck", "quiescent, every Call returned, no function running: Wait of waiter %d (invoked at stamp %d) has not returned", i, wt.inv)
			return
		}
	}
	// Wait with no Call overlapping, then Count
	final := &waiter{}
	cnt := -1
	go func() {
		doWait(final)
		cnt = doCount()
	}()
	simrt.Quiesce(-1)
	if simrt.Failed() {
		return
	}
	if !final.done {
		simrt.Failf("C14.wait-stuck", "quiescent, every Call returned: a final Wait has not returned")
		return
	}
	if cnt != 0 {
		simrt.Failf("C14.count-not-zero", "Count() = %d right after Wait returned with no Call in flight", cnt)
		return
	}
	// the pool must come back to life after it went idle
	fresh := &wkCall{id: len(x.calls), count: 1, gate: -1}
	x.calls = append(x.calls, fresh)
	go x.call(fresh)
	simrt.Quiesce(-1)
	if simrt.Failed() {
		return
	}
	if !fresh.returned {
		simrt.Failf("C14.fresh-call", "after the pool drained, Call(1, f) has not returned at quiescence (f ran %d times)", fresh.runs)
		return
	}
}
