package harness

import (
	"context"
	"math"
	"reflect"
	"strconv"
	"sync"
	"time"

	"bbsim/simrt"

	bigbuff "github.com/joeycumines/go-bigbuff"
)

// Shared workload for C09 and C10 (bigbuff.Exclusive): 1-3 keys, 2-8 caller tasks mixing every
// call style. Every submitted function stamps its start and end, returns a value that identifies
// the execution, has scheduling points inside, and can be held on a harness gate. The two
// properties have their own oracles (exWorld.prop selects which checks may fail).

const (
	exCall = iota
	exCallAfter
	exCallAsync
	exCallAfterAsync
	exStart
	exStartAfter
	exOptions
	exKinds
)

var exKindName = [...]string{"Call", "CallAfter", "CallAsync", "CallAfterAsync", "Start", "StartAfter", "CallWithOptions"}

// exFnPlan is the drawn behaviour of one submitted function.
type exFnPlan struct {
	body       pause // before resolving
	lockPoint  bool  // lock/unlock a harness mutex (plain scheduling points)
	early      bool  // work-style only: resolve, then keep running for a while (resolve-to-return gap)
	gap        pause // how long it keeps running after an early resolve
	unresolved bool  // work-style only: return without calling resolve (fault unresolved_work)
	double     bool  // work-style only: call resolve a second time with another value (must be ignored)
	panics     bool  // value-style under the harness's outer wrapper only: the function panics; the wrapper recovers
	hedged     bool  // work-style only: two tasks call resolve concurrently with different values (one wins, for every caller)
	errKind    int   // 0: (res,nil)  1: (nil,err)  2: (res,err)
	holdInGap  bool  // held (if its key is the held key) after resolving instead of before
}

// exOpPlan is one drawn operation of a caller.
type exOpPlan struct {
	kind       int
	key        int
	wait       time.Duration
	pre        pause
	asyncPause pause
	minDur     time.Duration // value-style: wrap in bigbuff.MinDuration
	// CallWithOptions only
	optStart      bool
	optWork       bool          // ExclusiveWork (else ExclusiveValue)
	optRate       time.Duration // ExclusiveRateLimit(ctx, optRate) when > 0
	optOuter      bool          // an outermost ExclusiveWrapper that stamps the whole wrapped work function
	optWait       bool
	negWait       time.Duration // a raw wait <= 0 passed instead of wait*unit
	optRateFirst  bool          // option order: rate limit before / after the work option
	optRateShared bool          // the rate-limit option value is shared with other calls of the run
	fn            exFnPlan
}

type exRes struct {
	exec  int
	bogus bool
	alt   bool // the second candidate of a hedged resolve
}

// c09KeyA and c09KeyB are distinct key types that print alike (and like the string "7").
type c09KeyA int
type c09KeyB int

func (k c09KeyA) String() string { return strconv.Itoa(int(k)) }
func (k c09KeyB) String() string { return strconv.Itoa(int(k)) }

// exValuePanic is what a scripted value function panics with.
var exValuePanic = any("c10: scripted panic of a value function")

type exErr struct{ exec int }

func (e *exErr) Error() string { return "harness error" }

type exCallRec struct {
	id, task, key int
	op            *exOpPlan
	start, async  bool
	inv, ret      int64 // stamps: before the method call, after the method returned
	invAt         time.Duration
	invoked       bool
	got           bool // outcome received
	gotAt         int64
	res           interface{}
	err           error
	closed        bool // async: the channel was seen closed after the one value
	done          bool // nothing more is awaited for this call
	ran           []*exExecRec
	cur           *exExecRec // execution opened by the outer wrapper, used by the wrapped function
	answeredBy    *exExecRec
}

type exExecRec struct {
	id, key    int
	fn         *exCallRec
	start, end int64
	startAt    time.Duration
	resolved   bool
	rstamp     int64
	res        interface{}
	err        error
	answered   int
	held       bool
	panicked   bool        // the value function ran and panicked
	bodyBegan  bool        // the user-supplied work function itself started (not only a wrapper around it)
	hedged     bool        // resolved by two concurrent resolve calls: (res,err) or (alt,nil), the same for every caller
	alt        interface{} // the second candidate
	hres       interface{} // the first candidate
	herr       error
	winner     *exCallRec // first call seen answered by this hedged execution
}

type exWorld struct {
	prop     string // "C09" or "C10": which oracle may fail
	e        *bigbuff.Exclusive
	keys     []interface{}
	unit     time.Duration
	calls    []*exCallRec
	execs    []*exExecRec
	running  [][]*exExecRec // per key: executions between begin and end
	invoked  []int          // per key: calls invoked so far
	nexec    []int          // per key: executions begun so far
	holdKey  int
	gate     chan struct{}
	released bool
	mu       sync.Mutex
	rateCtx  context.Context
	rateOpts map[time.Duration]bigbuff.ExclusiveOption // option values reused by several calls (and keys)
}

// rateLimit returns the rate-limit option of an operation: a fresh option value, or (half of the
// operations) one shared by every call of the run that uses the same rate, whatever its key.
func (w *exWorld) rateLimit(op *exOpPlan) bigbuff.ExclusiveOption {
	d := op.optRate * w.unit
	if !op.optRateShared {
		return bigbuff.ExclusiveRateLimit(w.rateCtx, d)
	}
	if o, ok := w.rateOpts[d]; ok {
		simrt.Probe("rate_limit_option_value_reused")
		return o
	}
	if w.rateOpts == nil {
		w.rateOpts = map[time.Duration]bigbuff.ExclusiveOption{}
	}
	o := bigbuff.ExclusiveRateLimit(w.rateCtx, d)
	w.rateOpts[d] = o
	return o
}

func (w *exWorld) fail(prop, check, format string, args ...interface{}) {
	if w.prop == prop {
		simrt.Failf(check, format, args...)
	}
}

func drawExFn(work bool) exFnPlan {
	f := exFnPlan{body: drawPause(), lockPoint: simrt.Chance(1, 4)}
	if simrt.Chance(1, 4) {
		f.errKind = simrt.DrawRange(1, 2)
	}
	if work {
		switch simrt.Draw(8) {
		case 0, 1, 2:
			f.early = true
			f.gap = pause{1 + simrt.Draw(2), simrt.DrawRange(1, 10)}
			f.holdInGap = simrt.Chance(1, 2)
		case 3:
			f.unresolved = true
		case 4:
			f.double = true
		case 5:
			f.hedged = simrt.Chance(1, 2)
		}
	}
	return f
}

func drawExOp(nKeys int) *exOpPlan {
	kind := simrt.Draw(exKinds + 2)
	if kind >= exKinds {
		kind = exOptions
	}
	op := &exOpPlan{kind: kind, key: simrt.Draw(nKeys), pre: drawPause(), asyncPause: drawPause()}
	switch op.kind {
	case exCallAfter, exCallAfterAsync, exStartAfter:
		op.wait = time.Duration(simrt.DrawRange(0, 6)) // 0 is legal: "if wait is <= 0 it will be ignored"
		if op.wait == 0 && simrt.Chance(1, 3) {
			// negative waits are ignored too, whatever their magnitude
			op.negWait = []time.Duration{-1, -time.Hour, math.MinInt64 + 1, math.MinInt64}[simrt.Draw(4)]
			simrt.Probe("negative_wait")
		}
	}
	work := false
	if op.kind == exOptions {
		op.optStart = simrt.Chance(1, 4)
		op.optWork = simrt.Chance(2, 3)
		if simrt.Chance(1, 2) {
			op.optRate = time.Duration(simrt.DrawRange(1, 8))
			if simrt.Chance(1, 2) {
				op.optRate = time.Duration(1 + 3*simrt.Draw(2)) // few distinct rates, so that sharing happens
				op.optRateShared = true
			}
		}
		op.optOuter = op.optRate > 0 || simrt.Chance(1, 2)
		op.optRateFirst = simrt.Chance(1, 2)
		if simrt.Chance(1, 3) {
			op.optWait = true
			op.wait = time.Duration(simrt.DrawRange(1, 6))
		}
		work = op.optWork
	} else if simrt.Chance(1, 8) {
		op.minDur = time.Duration(simrt.DrawRange(1, 6))
	}
	op.fn = drawExFn(work)
	if op.kind == exOptions && !op.optWork && op.optOuter && simrt.Chance(1, 6) {
		op.fn.panics = true
	}
	return op
}

// begin opens an execution record for a function that has just started running.
func (w *exWorld) begin(c *exCallRec) *exExecRec {
	e := &exExecRec{id: len(w.execs), key: c.key, fn: c, start: simrt.Stamp(), startAt: simrt.Now()}
	w.execs = append(w.execs, e)
	simrt.Logf("exec %d begins: key %d, function of call %d, stamp %d", e.id, e.key, c.id, e.start)
	for _, o := range w.running[c.key] {
		w.fail("C09", "C09.overlap", "key %d: execution %d (function of call %d) started at stamp %d while execution %d (function of call %d, started at %d, resolved=%v) had not returned yet",
			c.key, e.id, c.id, e.start, o.id, o.fn.id, o.start, o.resolved)
		if o.resolved {
			simrt.Probe("overlap_was_in_resolve_to_return_gap")
		}
	}
	w.running[c.key] = append(w.running[c.key], e)
	w.nexec[c.key]++
	if w.nexec[c.key] > w.invoked[c.key] {
		w.fail("C10", "C10.more-executions-than-calls", "key %d: execution number %d started although only %d calls were made for the key", c.key, w.nexec[c.key], w.invoked[c.key])
	}
	c.ran = append(c.ran, e)
	if len(c.ran) > 1 {
		w.fail("C10", "C10.fn-ran-twice", "the function supplied by call %d (%s, key %d) was executed %d times (executions %d and %d); a call attaches to exactly one execution",
			c.id, exKindName[c.op.kind], c.key, len(c.ran), c.ran[0].id, e.id)
	}
	if !c.invoked || c.inv > e.start {
		w.fail("C10", "C10.fn-before-call", "function of call %d ran before the call was made", c.id)
	}
	return e
}

func (w *exWorld) end(e *exExecRec) {
	e.end = simrt.Stamp()
	simrt.Logf("exec %d returns: stamp %d, resolved=%v", e.id, e.end, e.resolved)
	r := w.running[e.key]
	for i, o := range r {
		if o == e {
			w.running[e.key] = append(append([]*exExecRec(nil), r[:i]...), r[i+1:]...)
			break
		}
	}
}

func (w *exWorld) noteResolve(e *exExecRec, r interface{}, err error) {
	if !e.resolved {
		e.resolved, e.res, e.err, e.rstamp = true, r, err, simrt.Stamp()
		simrt.Logf("exec %d resolves (%v,%v): stamp %d", e.id, r, err, e.rstamp)
	}
}

func (w *exWorld) maybeHold(e *exExecRec) {
	if e.key == w.holdKey && !w.released {
		e.held = true
		simrt.Probe("work_held_on_gate")
		<-w.gate
	}
}

func (w *exWorld) result(e *exExecRec, kind int) (interface{}, error) {
	switch kind {
	case 1:
		return nil, &exErr{e.id}
	case 2:
		return &exRes{exec: e.id}, &exErr{e.id}
	}
	return &exRes{exec: e.id}, nil
}

// workBody is what a work-style function does between begin and end.
func (w *exWorld) workBody(c *exCallRec, e *exExecRec, resolve func(interface{}, error)) {
	f := &c.op.fn
	e.bodyBegan = true
	f.body.do(w.unit)
	if f.lockPoint {
		w.mu.Lock()
		w.mu.Unlock()
	}
	if !(f.early && f.holdInGap) {
		w.maybeHold(e)
	}
	if f.unresolved {
		simrt.Fault("unresolved_work")
		return
	}
	r, err := w.result(e, f.errKind)
	if f.hedged {
		// hedged attempts: two tasks resolve at about the same time; exactly one of them counts
		simrt.Probe("resolve_called_concurrently")
		e.hedged, e.alt, e.hres, e.herr = true, &exRes{exec: e.id, alt: true}, r, err
		var wg sync.WaitGroup
		wg.Add(2)
		go func() { defer wg.Done(); resolve(r, err) }()
		go func() { defer wg.Done(); resolve(e.alt, nil) }()
		wg.Wait()
		return
	}
	resolve(r, err)
	if f.double {
		simrt.Probe("resolve_called_twice")
		resolve(&exRes{exec: e.id, bogus: true}, nil)
	}
	if f.early {
		simrt.Probe("resolved_early_still_running")
		if f.holdInGap {
			w.maybeHold(e)
		}
		f.gap.do(w.unit)
		if f.lockPoint {
			w.mu.Lock()
			w.mu.Unlock()
		}
	}
}

// workFn is the bigbuff.WorkFunc of call c.
func (w *exWorld) workFn(c *exCallRec) bigbuff.WorkFunc {
	return func(resolve func(interface{}, error)) {
		if e := c.cur; e != nil { // inside the outer stamping wrapper
			w.workBody(c, e, resolve)
			return
		}
		e := w.begin(c)
		w.workBody(c, e, func(r interface{}, err error) {
			w.noteResolve(e, r, err)
			resolve(r, err)
		})
		w.end(e)
	}
}

// valueFn is the func() (interface{}, error) of call c.
func (w *exWorld) valueFn(c *exCallRec) func() (interface{}, error) {
	return func() (interface{}, error) {
		f := &c.op.fn
		e, own := c.cur, false
		if e == nil {
			e, own = w.begin(c), true
		}
		f.body.do(w.unit)
		if f.lockPoint {
			w.mu.Lock()
			w.mu.Unlock()
		}
		w.maybeHold(e)
		if f.panics {
			simrt.Fault("callback_panic")
			e.panicked = true
			panic(exValuePanic)
		}
		r, err := w.result(e, f.errKind)
		if own {
			w.noteResolve(e, r, err)
			w.end(e)
		}
		return r, err
	}
}

// outer is an ExclusiveWrapper applied last (outermost): it sees the start and the return of the
// whole wrapped work function (including the tail of ExclusiveRateLimit) and what was resolved.
func (w *exWorld) outer(c *exCallRec) func(bigbuff.WorkFunc) bigbuff.WorkFunc {
	return func(inner bigbuff.WorkFunc) bigbuff.WorkFunc {
		return func(resolve func(interface{}, error)) {
			e := w.begin(c)
			c.cur = e
			func() {
				// a user's outer wrapper may absorb a panic of the function it wraps; the work function
				// then simply returns without having resolved
				defer func() {
					if x := recover(); x != nil && x != exValuePanic {
						panic(x)
					}
				}()
				inner(func(r interface{}, err error) {
					w.noteResolve(e, r, err)
					resolve(r, err)
				})
			}()
			c.cur = nil
			if e.resolved && e.panicked {
				w.fail("C10", "C10.unresolved-masked", "the value function of call %d panicked (absorbed by the caller's own outer wrapper), so nothing was resolved; yet (%v,%v) was resolved on its behalf: the outcome must be the resolve-not-called error", c.id, e.res, e.err)
			}
			if e.resolved && e.bodyBegan && c.op.fn.unresolved {
				w.fail("C10", "C10.unresolved-masked", "the work function of call %d started, and returned without resolving, yet a wrapper between it and the Exclusive resolved (%v,%v) on its behalf: the outcome must be the resolve-not-called error", c.id, e.res, e.err)
			}
			if !e.resolved && !c.op.fn.unresolved {
				// value-style inside a wrapper resolves through resolve(value()), so this cannot
				// happen unless the rate limit skipped the function without resolving
				simrt.Probe("wrapped_work_returned_unresolved")
			}
			w.end(e)
		}
	}
}

// invoke stamps the call and counts the interleavings it falls into.
func (w *exWorld) invoke(c *exCallRec) {
	for _, o := range w.running[c.key] {
		if o.resolved {
			simrt.Probe("call_during_resolve_to_return_gap")
		} else {
			simrt.Probe("call_while_work_running")
		}
	}
	c.invoked = true
	w.invoked[c.key]++
	c.invAt = simrt.Now()
	c.inv = simrt.Stamp()
	simrt.Logf("call %d invoked: %s key %d wait %d start=%v, stamp %d", c.id, exKindName[c.op.kind], c.key, c.op.wait, c.start, c.inv)
}

func (w *exWorld) outcome(c *exCallRec, r interface{}, err error) {
	c.res, c.err, c.got, c.gotAt = r, err, true, simrt.Stamp()
	simrt.Logf("call %d outcome (%v,%v): stamp %d", c.id, r, err, c.gotAt)
}

// perform runs one operation of a caller task.
func (w *exWorld) perform(c *exCallRec) {
	op := c.op
	key := w.keys[op.key]
	wait := op.wait * w.unit
	if op.negWait != 0 {
		wait = op.negWait
	}
	value := w.valueFn(c)
	if op.minDur > 0 {
		value = bigbuff.MinDuration(op.minDur*w.unit, value)
	}
	var ch <-chan *bigbuff.ExclusiveOutcome
	w.invoke(c)
	switch op.kind {
	case exCall:
		r, err := w.e.Call(key, value)
		c.ret = simrt.Stamp()
		w.outcome(c, r, err)
		c.done = true
		return
	case exCallAfter:
		r, err := w.e.CallAfter(key, value, wait)
		c.ret = simrt.Stamp()
		w.outcome(c, r, err)
		c.done = true
		return
	case exCallAsync:
		ch = w.e.CallAsync(key, value)
	case exCallAfterAsync:
		ch = w.e.CallAfterAsync(key, value, wait)
	case exStart:
		w.e.Start(key, value)
	case exStartAfter:
		w.e.StartAfter(key, value, wait)
	case exOptions:
		opts := []bigbuff.ExclusiveOption{bigbuff.ExclusiveKey(key)}
		if op.optRate > 0 && op.optRateFirst {
			// "may be provided in any order (after or before this option)"
			opts = append(opts, w.rateLimit(op))
		}
		if op.optWork {
			opts = append(opts, bigbuff.ExclusiveWork(w.workFn(c)))
		} else {
			opts = append(opts, bigbuff.ExclusiveValue(value))
		}
		if op.optRate > 0 && len(opts) == 2 {
			opts = append(opts, w.rateLimit(op))
		}
		if op.optWait {
			opts = append(opts, bigbuff.ExclusiveWait(wait))
		}
		if op.optStart {
			opts = append(opts, bigbuff.ExclusiveStart(true))
		}
		if op.optOuter {
			opts = append(opts, bigbuff.ExclusiveWrapper(w.outer(c)))
		}
		ch = w.e.CallWithOptions(opts...)
	}
	c.ret = simrt.Stamp()
	if c.start {
		c.done = true
		return
	}
	if ch == nil {
		w.fail("C10", "C10.no-outcome", "call %d (%s, not start-style) returned a nil outcome channel", c.id, exKindName[op.kind])
		c.done = true
		return
	}
	op.asyncPause.do(w.unit)
	v, ok := <-ch
	if !ok || v == nil {
		w.fail("C10", "C10.no-outcome", "call %d (%s): outcome channel was closed (ok=%v) without delivering an outcome", c.id, exKindName[op.kind], ok)
		c.done = true
		return
	}
	w.outcome(c, v.Result, v.Error)
	// the outcome a caller received is that caller's: what it does to it is nobody else's business
	v.Result, v.Error = "overwritten by the caller", nil
	v2, ok2 := <-ch
	if ok2 {
		w.fail("C10", "C10.two-outcomes", "call %d (%s): outcome channel delivered a second value %v", c.id, exKindName[op.kind], v2)
	}
	c.closed = true
	c.done = true
}

// match decides whether execution e can be the one that answered call c.
func (w *exWorld) match(c *exCallRec, e *exExecRec) bool {
	if e.key != c.key || e.start < c.inv || e.start > c.gotAt {
		return false
	}
	if e.resolved {
		return e.rstamp < c.gotAt && e.res == c.res && e.err == c.err
	}
	// returned without resolving: any non-nil error that is not one of ours, and a nil result
	if e.end == 0 || e.end > c.gotAt {
		return false
	}
	_, mine := c.err.(*exErr)
	return c.res == nil && c.err != nil && !mine
}

// identify returns the execution a unique outcome names, or nil when the outcome is not unique.
func (w *exWorld) identify(c *exCallRec) (*exExecRec, bool) {
	id := -1
	if r, ok := c.res.(*exRes); ok && r != nil {
		id = r.exec
	} else if e, ok := c.err.(*exErr); ok && e != nil {
		id = e.exec
	}
	if id < 0 {
		return nil, false
	}
	return w.execs[id], true
}

// checkAnswered is the C10 oracle over everything recorded so far. final: all calls must be done.
func (w *exWorld) checkAnswered(final bool) bool {
	for _, c := range w.calls {
		if !c.invoked {
			continue
		}
		if !c.start && !c.got {
			continue // liveness is decided by the caller of this function
		}
		if !c.start {
			if e, unique := w.identify(c); unique {
				if r, ok := c.res.(*exRes); ok && r.bogus {
					w.fail("C10", "C10.wrong-outcome", "call %d received the value passed to a second resolve call of execution %d; only the first resolve counts", c.id, e.id)
					return false
				}
				if e.key != c.key {
					w.fail("C10", "C10.wrong-key", "call %d on key %d received the outcome of execution %d, which ran a function submitted under key %d", c.id, c.key, e.id, e.key)
					return false
				}
				if e.start < c.inv {
					w.fail("C10", "C10.stale-result", "call %d (%s, key %d) was invoked at stamp %d but received the outcome of execution %d which had started earlier, at stamp %d",
						c.id, exKindName[c.op.kind], c.key, c.inv, e.id, e.start)
					return false
				}
				if e.hedged {
					if !(c.res == e.alt && c.err == nil) && !(c.res == e.hres && c.err == e.herr) {
						w.fail("C10", "C10.wrong-outcome", "call %d received (%v,%v), which is neither of the two values execution %d resolved with concurrently", c.id, c.res, c.err, e.id)
						return false
					}
					if e.winner == nil {
						e.winner = c
					} else if o := e.winner; o.res != c.res || o.err != c.err {
						w.fail("C10", "C10.wrong-outcome", "calls %d and %d were both answered by execution %d (two concurrent resolve calls) but received different outcomes (%v,%v) and (%v,%v); coalesced callers must see the identical result and error",
							o.id, c.id, e.id, o.res, o.err, c.res, c.err)
						return false
					}
					c.answeredBy = e
					continue
				}
				if !e.resolved || e.res != c.res || e.err != c.err {
					w.fail("C10", "C10.wrong-outcome", "call %d received (%v,%v) but execution %d resolved=%v with (%v,%v); coalesced callers must see the identical result and error",
						c.id, c.res, c.err, e.id, e.resolved, e.res, e.err)
					return false
				}
				c.answeredBy = e
			} else {
				var cand *exExecRec
				n := 0
				for _, e := range w.execs {
					if w.match(c, e) {
						cand = e
						n++
					}
				}
				if n == 0 {
					w.fail("C10", "C10.no-matching-execution", "call %d (%s, key %d, invoked at %d) received (%v,%v), which is not the outcome of any execution for its key that started after the call",
						c.id, exKindName[c.op.kind], c.key, c.inv, c.res, c.err)
					return false
				}
				if n == 1 {
					c.answeredBy = cand
				}
			}
		}
	}
	// the executed function was supplied by a call attached to that execution
	for _, e := range w.execs {
		f := e.fn
		if f.start || !f.got {
			continue
		}
		if a, unique := w.identify(f); unique {
			if a != e {
				w.fail("C10", "C10.fn-not-attached", "execution %d ran the function of call %d, but that call was answered by execution %d: the executed function must be supplied by one of the calls the execution answers",
					e.id, f.id, a.id)
				return false
			}
		} else if (e.end != 0 || e.resolved) && !w.match(f, e) {
			// non-unique outcome (unresolved / rate limit context error): e itself must explain it
			w.fail("C10", "C10.fn-not-attached", "execution %d ran the function of call %d (resolved=%v (%v,%v), returned=%v), but the call received (%v,%v)",
				e.id, f.id, e.resolved, e.res, e.err, e.end != 0, f.res, f.err)
			return false
		}
	}
	if !final {
		return true
	}
	for _, c := range w.calls {
		if !c.invoked || !c.start {
			continue
		}
		ok := false
		for _, e := range w.execs {
			if e.key == c.key && e.start > c.inv {
				ok = true
				break
			}
		}
		if !ok {
			w.fail("C10", "C10.start-not-followed", "call %d (%s, key %d) was invoked at stamp %d and no execution for its key started after it (quiescent, all timers drained)",
				c.id, exKindName[c.op.kind], c.key, c.inv)
			return false
		}
	}
	return true
}

// mapLen reads the number of keys the Exclusive still tracks. The property's last clause ("no
// per-key state remains") is not observable through the API; the field is read reflectively and the
// check is skipped when the representation is not a map called work.
func exMapLen(e *bigbuff.Exclusive) int {
	if simrt.RaceEnabled {
		return -1 // an unlocked white-box read: not something to show the race detector
	}
	f := reflect.ValueOf(e).Elem().FieldByName("work")
	if !f.IsValid() || f.Kind() != reflect.Map {
		return -1
	}
	return f.Len()
}

// reachProbes derives the rare-interleaving counters from the finished history.
func (w *exWorld) reachProbes() {
	for _, c := range w.calls {
		if c.answeredBy != nil {
			c.answeredBy.answered++
		}
	}
	for _, e := range w.execs {
		if e.answered >= 2 {
			simrt.Probe("coalesced_calls")
		}
		if e.answered >= 1 && e.fn.answeredBy == e && e.fn.start {
			simrt.Probe("start_fn_answered_callers")
		}
	}
	for _, c := range w.calls {
		a := c.answeredBy
		if a == nil {
			continue
		}
		if a.fn != c {
			simrt.Probe("answered_by_other_callers_function")
		}
		// attached while an earlier call of the same batch was sitting in its CallAfter wait
		for _, o := range w.calls {
			if o != c && o.answeredBy == a && o.op.wait > 0 && o.invAt < c.invAt && c.invAt <= a.startAt {
				simrt.Probe("call_attached_during_wait")
				break
			}
		}
	}
	for _, s := range w.calls {
		if !s.start || !s.invoked {
			continue
		}
		// a start-style call that found an unanswered earlier call on its key whose execution had
		// not begun: the count != 1 escape hatch (approximation from outside)
		for _, o := range w.calls {
			if o == s || o.key != s.key || !o.invoked || o.inv > s.inv {
				continue
			}
			if (o.answeredBy != nil && o.answeredBy.start > s.ret) || (o.start && len(o.ran) == 1 && o.ran[0].start > s.ret) {
				simrt.Probe("start_escape_hatch")
				break
			}
		}
	}
}

func exclusiveRun(prop string) {
	nKeys := simrt.DrawRange(1, 3)
	nCallers := simrt.DrawRange(2, 8+4*(simrt.Scale()-1))
	w := &exWorld{
		prop:    prop,
		e:       new(bigbuff.Exclusive),
		keys:    [][]interface{}{{nil, "b", 3}, {c09KeyA(7), c09KeyB(7), "7"}}[simrt.Draw(2)][:nKeys],
		unit:    time.Microsecond,
		running: make([][]*exExecRec, nKeys),
		invoked: make([]int, nKeys),
		nexec:   make([]int, nKeys),
		holdKey: -1,
		gate:    make(chan struct{}),
	}
	if simrt.Chance(1, 2) {
		w.holdKey = simrt.Draw(nKeys)
	}
	var cancel context.CancelFunc
	w.rateCtx, cancel = context.WithCancel(context.Background())
	defer cancel()
	cancelRate := simrt.Chance(1, 4)
	cancelPause := pause{1 + simrt.Draw(2), simrt.DrawRange(1, 20)}
	budget := 14
	type task struct {
		calls []*exCallRec
		done  bool
	}
	tasks := make([]*task, nCallers)
	for i := range tasks {
		t := &task{}
		for n := simrt.DrawRange(1, 3); n > 0 && budget > 0; n-- {
			budget--
			op := drawExOp(nKeys)
			c := &exCallRec{id: len(w.calls), task: i, key: op.key, op: op}
			c.start = op.kind == exStart || op.kind == exStartAfter || (op.kind == exOptions && op.optStart)
			c.async = !c.start && (op.kind == exCallAsync || op.kind == exCallAfterAsync || op.kind == exOptions)
			w.calls = append(w.calls, c)
			t.calls = append(t.calls, c)
		}
		tasks[i] = t
	}
	for _, t := range tasks {
		t := t
		go func() {
			for _, c := range t.calls {
				c.op.pre.do(w.unit)
				w.perform(c)
				if simrt.Failed() {
					return
				}
			}
			t.done = true
		}()
	}
	if cancelRate {
		go func() {
			cancelPause.do(w.unit)
			simrt.Fault("ctx_cancel")
			cancel()
		}()
	}

	// phase 1: run until nothing moves. If a key is held, only its own calls may be outstanding.
	simrt.Quiesce(-1)
	if simrt.Failed() {
		return
	}
	heldNow := false
	for _, e := range w.execs {
		if e.held && e.end == 0 {
			heldNow = true
		}
		// an execution that has resolved but not returned (held in its resolve-to-return gap): the call
		// whose function it runs is certainly one of the calls it answers, and the outcome is due at the
		// resolve, not at the return (other calls made before it began may belong to the next execution)
		if c := e.fn; e.resolved && e.end == 0 && !e.hedged && c.invoked && !c.start && !c.got {
			w.fail("C10", "C10.answer-waits-for-return", "quiescent: execution %d (key %d), which runs the function of call %d (%s), resolved at stamp %d and is still running; that call has not received its outcome: coalesced callers are answered when the work resolves, not when it returns",
				e.id, e.key, c.id, exKindName[c.op.kind], e.rstamp)
			return
		}
	}
	for _, c := range w.calls {
		if !c.invoked || c.done {
			continue
		}
		if heldNow && c.key == w.holdKey {
			continue
		}
		if heldNow {
			w.fail("C09", "C09.blocked-by-other-key", "quiescent with a work function of key %d held on the gate: call %d (%s) on key %d has not completed (got outcome: %v)",
				w.holdKey, c.id, exKindName[c.op.kind], c.key, c.got)
		} else {
			w.fail("C09", "C09.call-stuck", "quiescent, no work function held: call %d (%s, key %d) has not completed (got outcome: %v)", c.id, exKindName[c.op.kind], c.key, c.got)
		}
		if c.got && !c.closed {
			w.fail("C10", "C10.not-closed", "quiescent: call %d (%s, key %d) received its outcome but the outcome channel was never closed", c.id, exKindName[c.op.kind], c.key)
		}
		w.fail("C10", "C10.lost-call", "quiescent, all timers drained, work of key %d held=%v: call %d (%s, key %d) has not completed (got outcome: %v)",
			w.holdKey, heldNow, c.id, exKindName[c.op.kind], c.key, c.got)
		return
	}
	if heldNow {
		for _, e := range w.execs {
			if e.end == 0 && e.key != w.holdKey {
				w.fail("C09", "C09.blocked-by-other-key", "quiescent with key %d held: execution %d on key %d never returned", w.holdKey, e.id, e.key)
				return
			}
		}
		for _, c := range w.calls {
			if c.invoked && c.key != w.holdKey {
				simrt.Probe("other_key_completed_while_key_held")
				break
			}
		}
		if !w.checkAnswered(false) {
			return
		}
	}
	// phase 2: release the gate; now everything must complete
	w.released = true
	simrt.Logf("gate opened (held key %d, something held: %v)", w.holdKey, heldNow)
	close(w.gate)
	simrt.Quiesce(-1)
	if simrt.Failed() {
		return
	}
	for _, c := range w.calls {
		if !c.invoked || !c.done {
			w.fail("C09", "C09.call-stuck", "quiescent after the gate was released: call %d (%s, key %d) has not completed (invoked=%v, got outcome: %v)", c.id, exKindName[c.op.kind], c.key, c.invoked, c.got)
			if c.got && !c.closed {
				w.fail("C10", "C10.not-closed", "quiescent: call %d (%s, key %d) received its outcome but the outcome channel was never closed", c.id, exKindName[c.op.kind], c.key)
			}
			w.fail("C10", "C10.lost-call", "quiescent, all timers drained, nothing held: call %d (%s, key %d) has not completed (invoked=%v, got outcome: %v)",
				c.id, exKindName[c.op.kind], c.key, c.invoked, c.got)
			return
		}
	}
	for _, e := range w.execs {
		if e.end == 0 {
			w.fail("C09", "C09.call-stuck", "execution %d never returned", e.id)
			w.fail("C10", "C10.lost-call", "execution %d never returned", e.id)
			return
		}
	}
	if !w.checkAnswered(true) {
		return
	}
	// Every duration this run asked for (waits, rate limits, minimum durations, pauses) is a few
	// microseconds and there are at most 14 calls: a run that needed more than a simulated minute to
	// answer them let some call sit in a wait nobody requested ("ignored" waits included). The
	// discrete-event clock jumps over such a wait, so it has to be read off the clock.
	if now := simrt.Now(); now > time.Minute {
		w.fail("C10", "C10.answered-after-unrequested-wait", "all calls were answered, but only after %v of simulated time although every requested wait, rate and pause is a few microseconds: a call sat in a wait nobody asked for (waits <= 0 are documented as ignored)", now)
		return
	}
	w.reachProbes()
	if n := exMapLen(w.e); n > 0 {
		w.fail("C10", "C10.state-remains", "all %d calls answered, all %d executions returned, no library goroutine can run: the Exclusive still tracks %d key(s)", len(w.calls), len(w.execs), n)
		return
	}
	// phase 3: a fresh call per key runs its own function and gets its own result
	fresh := make([]*exCallRec, nKeys)
	for k := 0; k < nKeys; k++ {
		c := &exCallRec{id: len(w.calls), task: -1, key: k, op: &exOpPlan{kind: exCall, key: k}}
		w.calls = append(w.calls, c)
		fresh[k] = c
		go w.perform(c)
	}
	simrt.Quiesce(-1)
	if simrt.Failed() {
		return
	}
	for _, c := range fresh {
		if !c.done {
			w.fail("C09", "C09.call-stuck", "fresh call on idle key %d did not return", c.key)
			w.fail("C10", "C10.fresh-call", "after everything finished, a fresh Call on key %d did not return", c.key)
			return
		}
		if len(c.ran) != 1 {
			w.fail("C10", "C10.fresh-call", "after everything finished, a fresh Call on key %d ran its function %d times", c.key, len(c.ran))
			return
		}
		if e := c.ran[0]; c.res != e.res || c.err != e.err {
			w.fail("C10", "C10.fresh-call", "after everything finished, a fresh Call on key %d returned (%v,%v), not its own function's (%v,%v)", c.key, c.res, c.err, e.res, e.err)
			return
		}
	}
	if n := exMapLen(w.e); n > 0 {
		w.fail("C10", "C10.state-remains", "after the fresh calls returned and nothing can run: the Exclusive still tracks %d key(s)", n)
		return
	}
}
