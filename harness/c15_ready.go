package harness

import (
	"context"

	"bbsim/simrt"

	bigbuff "github.com/joeycumines/go-bigbuff"
)

// C15/ready-first: one key, 2..5 targets of one element type, every subscription taken in a drawn way
// (with or without a context), one publish (with or without a context). The targets become ready one after
// the other in a drawn order: the receiver of the next target begins to receive only once the previous one
// has its value (a consumer that reads its inputs in its own order). Whatever the order, every target
// receives the value and the publish returns; a publish that serves its targets in an order of its own
// waits for a target that is not ready while the one that is ready waits for it.
func init() {
	Register(Harness{Prop: "C15", Name: "C15/ready-first", Run: c15ReadyFirst, Weight: 1})
}

func c15ReadyFirst() {
	var nf bigbuff.Notifier
	n := simrt.DrawRange(2, 5)
	order := make([]int, n)
	for i := range order {
		order[i] = i
	}
	for i := n - 1; i > 0; i-- {
		k := simrt.Draw(i + 1)
		order[i], order[k] = order[k], order[i]
	}
	start := make([]chan struct{}, n)
	for i := range start {
		start[i] = make(chan struct{})
	}
	close(start[order[0]])
	targets := make([]chan int, n)
	got := make([]int, n)
	allCtxLess := true
	for i := range targets {
		targets[i] = make(chan int)
		switch simrt.Draw(4) {
		case 0:
			ctx, cancel := context.WithCancel(context.Background())
			defer cancel()
			nf.SubscribeContext(ctx, "k", targets[i])
			allCtxLess = false
		case 1:
			cancel := nf.SubscribeCancel(context.Background(), "k", targets[i])
			defer cancel()
			allCtxLess = false
		default:
			nf.Subscribe("k", targets[i])
		}
	}
	if allCtxLess {
		simrt.Probe("no_subscription_has_a_context")
	}
	for pos := range order {
		pos := pos
		i := order[pos]
		go func() {
			<-start[i]
			got[i] = <-targets[i]
			if pos+1 < n {
				close(start[order[pos+1]])
			}
		}()
	}
	returned := false
	pubMode := simrt.Draw(3)
	go func() {
		switch pubMode {
		case 0:
			nf.Publish("k", 7)
		case 1:
			nf.PublishContext(nil, "k", 7)
		default:
			ctx, cancel := context.WithCancel(context.Background())
			defer cancel()
			nf.PublishContext(ctx, "k", 7)
		}
		returned = true
	}()
	simrt.Quiesce(-1)
	if simrt.Failed() {
		return
	}
	for i := range targets {
		if got[i] != 7 {
			simrt.Failf("C15.ready-not-served", "quiescent: %d targets subscribed (in index order) before the publish, their receivers becoming ready in the order %v, each once the previous one has the value: target %d has not been given the value (received so far: %v, publish returned: %v): the publish has to serve its targets in every order in which they become ready", n, order, i, got, returned)
			return
		}
	}
	if !returned {
		simrt.Failf("C15.stuck", "every one of the %d targets has received the value and the publish has not returned", n)
	}
}

// C15/shared-context: 2..4 subscriptions under one key that share one context (the same value, or
// WithValue children of it), some with a receiver and some without; one publish; the shared context is
// cancelled while the publish waits. The publish returns (every subscription it still waited for has had
// its context cancelled), every target with a receiver got the value at most once, and the registry can be
// written to afterwards.
func init() {
	Register(Harness{Prop: "C15", Name: "C15/shared-context", Run: c15SharedContext, Weight: 1})
}

type c15CtxKey struct{}

func c15SharedContext() {
	var nf bigbuff.Notifier
	shared, cancel := context.WithCancel(context.Background())
	defer cancel()
	n := simrt.DrawRange(2, 4)
	targets := make([]chan int, n)
	hasRecv := make([]bool, n)
	got := make([]int, n)
	absent := 0
	for i := range targets {
		targets[i] = make(chan int)
		ctx := shared
		if simrt.Chance(1, 3) {
			ctx = context.WithValue(shared, c15CtxKey{}, i)
		}
		if simrt.Chance(1, 2) {
			nf.SubscribeContext(ctx, "k", targets[i])
		} else {
			c := nf.SubscribeCancel(ctx, "k", targets[i])
			defer c()
		}
		hasRecv[i] = simrt.Chance(1, 3)
		if !hasRecv[i] {
			absent++
		}
	}
	stop := make(chan struct{})
	for i := range targets {
		if !hasRecv[i] {
			continue
		}
		i := i
		go func() {
			for {
				select {
				case <-targets[i]:
					got[i]++
				case <-stop:
					return
				}
			}
		}()
	}
	returned := false
	go func() {
		if simrt.Chance(1, 2) {
			nf.Publish("k", 7)
		} else {
			ctx, c := context.WithCancel(context.Background())
			defer c()
			nf.PublishContext(ctx, "k", 7)
		}
		returned = true
	}()
	if simrt.Chance(1, 2) {
		simrt.Quiesce(-1)
		if absent > 0 && returned {
			simrt.Failf("C15.returned-early", "a publish returned while %d subscribed targets, nobody receiving and their context live, have not been sent the value", absent)
			return
		}
	} else {
		simrt.Stall(simrt.Draw(12))
	}
	cancel()
	simrt.Quiesce(-1)
	if simrt.Failed() {
		return
	}
	if !returned {
		simrt.Failf("C15.stuck", "quiescent: %d subscriptions share one context (%d of their targets have no receiver), that context was cancelled while the publish waited, and the publish has not returned: it returns once each subscription has received the value or had its context cancelled", n, absent)
		return
	}
	for i := range got {
		if got[i] > 1 {
			simrt.Failf("C15.duplicate", "target %d received the value of one publish %d times", i, got[i])
			return
		}
	}
	// the registry is writable again (no lock left behind)
	done := false
	go func() {
		extra := make(chan int, 1)
		nf.Subscribe("k", extra)
		nf.Unsubscribe("k", extra)
		done = true
	}()
	simrt.Quiesce(-1)
	close(stop)
	if !done && !simrt.Failed() {
		simrt.Failf("C15.stuck", "after the publish returned, Subscribe/Unsubscribe of a new target has not returned at quiescence")
	}
}
