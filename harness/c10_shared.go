package harness

import (
	"bbsim/simrt"

	bigbuff "github.com/joeycumines/go-bigbuff"
)

func init() {
	Register(Harness{Prop: "C10", Name: "C10/shared-option", Run: c10SharedOption})
}

// c10SharedOption: ONE option value (ExclusiveValue of one function, optionally with one shared
// ExclusiveRateLimit) is reused by calls on DIFFERENT keys whose executions overlap: an option describes
// what to run, it carries no result. Different keys never coalesce, so every call has an execution of
// its own and receives that execution's result: the results handed out are exactly the results the
// executions returned, each once.
func c10SharedOption() {
	var e bigbuff.Exclusive
	n := simrt.DrawRange(2, 4)
	execs := 0
	body := drawPause()
	value := bigbuff.ExclusiveValue(func() (interface{}, error) {
		execs++
		id := execs
		body.do(1000)
		if simrt.Chance(1, 4) {
			simrt.Stall(simrt.DrawRange(1, 20))
		}
		return id, nil
	})
	got := make([]interface{}, n)
	errs := make([]error, n)
	done := 0
	for i := 0; i < n; i++ {
		i := i
		pre := drawPause()
		go func() {
			pre.do(1000)
			out := <-e.CallWithOptions(bigbuff.ExclusiveKey(i), value)
			if out == nil {
				simrt.Failf("C10.no-outcome", "call on key %d: the outcome channel was closed without an outcome", i)
				return
			}
			got[i], errs[i] = out.Result, out.Error
			done++
		}()
	}
	simrt.Probe("option_value_shared_across_keys")
	simrt.Quiesce(-1)
	if simrt.Failed() {
		return
	}
	if done != n {
		simrt.Failf("C10.lost-call", "quiescent: %d of %d calls on distinct keys sharing one option value have not been answered", n-done, n)
		return
	}
	if execs != n {
		simrt.Failf("C10.more-executions-than-calls", "%d calls on %d distinct keys: the function was executed %d times", n, n, execs)
		return
	}
	seen := map[int]bool{}
	for i := 0; i < n; i++ {
		id, ok := got[i].(int)
		if errs[i] != nil || !ok || id < 1 || id > n || seen[id] {
			simrt.Failf("C10.wrong-outcome", "calls on %d distinct keys sharing one ExclusiveValue option received %v (errors %v): every call has an execution of its own and receives that execution's result, each of 1..%d exactly once", n, got, errs, n)
			return
		}
		seen[id] = true
	}
}
