package instr

import (
	"fmt"
	"go/ast"
	"go/parser"
	"go/token"
	"go/types"
	"os"
	"path/filepath"
	"strings"
)

// ScratchModule is the name of the generated module.
const ScratchModule = "bbsimrun"

// chainImporter resolves already-checked packages first, local source directories second and the
// standard library (from source) last.
type chainImporter struct {
	fset  *token.FileSet
	known map[string]*types.Package
	dirs  map[string]string
	std   types.Importer
}

func (c *chainImporter) Import(path string) (*types.Package, error) {
	if p, ok := c.known[path]; ok {
		return p, nil
	}
	if dir, ok := c.dirs[path]; ok {
		ents, err := os.ReadDir(dir)
		if err != nil {
			return nil, err
		}
		var files []*ast.File
		for _, e := range ents {
			n := e.Name()
			if e.IsDir() || !strings.HasSuffix(n, ".go") || strings.HasSuffix(n, "_test.go") {
				continue
			}
			f, err := parser.ParseFile(c.fset, filepath.Join(dir, n), nil, 0)
			if err != nil {
				return nil, err
			}
			// honour the one build constraint used in /verif: race on/off
			if f.Name.Name == "" {
				continue
			}
			skip := false
			for _, cg := range f.Comments {
				for _, cm := range cg.List {
					if strings.HasPrefix(cm.Text, "//go:build race") {
						skip = true
					}
				}
			}
			if skip {
				continue
			}
			files = append(files, f)
		}
		conf := types.Config{Importer: c, Error: func(error) {}}
		p, _ := conf.Check(path, c.fset, files, nil)
		c.known[path] = p
		return p, nil
	}
	return c.std.Import(path)
}

// Scratch describes the inputs of one generated module.
type Scratch struct {
	RepoDir    string // /repo
	VerifDir   string // /verif
	GoRoot     string // GOROOT of the toolchain whose context package is instrumented
	OutDir     string
	HarnessDir string // /verif/harness
	ModCache   string
	WithTests  bool // passthrough validation: instrument the library's own tests too
}

// BuildScratch writes the instrumented library, context package and harness plus a go.mod into
// s.OutDir.
func BuildScratch(s Scratch) (map[string]int, error) {
	fset := token.NewFileSet()
	imap := DefaultImportMap(ScratchModule)
	stats := map[string]int{}
	merge := func(m map[string]int) {
		for k, v := range m {
			stats[k] += v
		}
	}
	// 1. the library under test
	var libImp types.Importer
	if s.WithTests {
		libImp = &chainImporter{fset: fset, std: StdImporter(fset), known: map[string]*types.Package{},
			dirs: map[string]string{"github.com/go-test/deep": filepath.Join(s.ModCache, "github.com/go-test/deep@v1.1.1")}}
	}
	lib, err := Instrument(fset, Options{SrcDir: s.RepoDir, OutDir: filepath.Join(s.OutDir, "bigbuff"),
		PkgPath: "github.com/joeycumines/go-bigbuff", ImportMap: imap, Lib: true, WithTests: s.WithTests, Importer: libImp})
	if err != nil {
		return nil, fmt.Errorf("instrument library: %w", err)
	}
	merge(lib.Stats)
	// 2. the context package of the simulation toolchain
	ctxOut := filepath.Join(s.OutDir, "simctx")
	cres, err := Instrument(fset, Options{SrcDir: filepath.Join(s.GoRoot, "src", "context"), OutDir: ctxOut,
		PkgPath: "context", ImportMap: imap, Lib: true, Tag: "ctx/",
		DropDecls: map[string]bool{"Context": true, "CancelFunc": true, "CancelCauseFunc": true, "Canceled": true, "DeadlineExceeded": true}})
	if err != nil {
		return nil, fmt.Errorf("instrument context: %w", err)
	}
	_ = cres
	aliases := `package context

import real "context"

type (
	Context         = real.Context
	CancelFunc      = real.CancelFunc
	CancelCauseFunc = real.CancelCauseFunc
)

var (
	Canceled         = real.Canceled
	DeadlineExceeded = real.DeadlineExceeded
)
`
	if err := os.WriteFile(filepath.Join(ctxOut, "zz_aliases.go"), []byte(aliases), 0o644); err != nil {
		return nil, err
	}
	// 3. the harness (type-checked against the un-instrumented library and the real std packages)
	if s.HarnessDir != "" {
		ci := &chainImporter{fset: fset, std: StdImporter(fset),
			known: map[string]*types.Package{"github.com/joeycumines/go-bigbuff": lib.Pkg},
			dirs: map[string]string{
				"bbsim/simrt":                       filepath.Join(s.VerifDir, "simrt"),
				"bbsim/oracle":                      filepath.Join(s.VerifDir, "oracle"),
				"github.com/anishathalye/porcupine": filepath.Join(s.ModCache, "github.com/anishathalye/porcupine@v1.3.0"),
			}}
		hres, err := Instrument(fset, Options{SrcDir: s.HarnessDir, OutDir: filepath.Join(s.OutDir, "harness"),
			PkgPath: "bbsim/harness", ImportMap: imap, Lib: false, Importer: ci, Tag: "h/"})
		if err != nil {
			return nil, fmt.Errorf("instrument harness: %w", err)
		}
		for k, v := range hres.Stats {
			stats["harness_"+k] += v
		}
		// test entry points are copied verbatim
		ents, _ := os.ReadDir(s.HarnessDir)
		for _, e := range ents {
			if strings.HasSuffix(e.Name(), "_test.go") {
				b, err := os.ReadFile(filepath.Join(s.HarnessDir, e.Name()))
				if err != nil {
					return nil, err
				}
				if err := os.WriteFile(filepath.Join(s.OutDir, "harness", e.Name()), b, 0o644); err != nil {
					return nil, err
				}
			}
		}
	}
	// the generated module takes the GODEBUG defaults of the repository's own go version (timer
	// channels, math/rand seeding, panic(nil), ...), i.e. the runtime behaviour the library is built and
	// tested with, although the toolchain that compiles it is newer (the module's own go line has to be
	// that of the simulator's module)
	goVersion := "1.23"
	if b, err := os.ReadFile(filepath.Join(s.RepoDir, "go.mod")); err == nil {
		for _, l := range strings.Split(string(b), "\n") {
			if f := strings.Fields(l); len(f) == 2 && f[0] == "go" {
				goVersion = f[1]
			}
		}
	}
	gd := goVersion
	if p := strings.Split(goVersion, "."); len(p) >= 2 {
		gd = p[0] + "." + p[1]
	}
	gomod := fmt.Sprintf(`module %s

go 1.26

godebug default=go%s

require (
	bbsim v0.0.0
	github.com/anishathalye/porcupine v1.3.0
	github.com/go-test/deep v1.1.1
)

replace bbsim => %s
`, ScratchModule, gd, s.VerifDir)
	if err := os.WriteFile(filepath.Join(s.OutDir, "go.mod"), []byte(gomod), 0o644); err != nil {
		return nil, err
	}
	if b, err := os.ReadFile(filepath.Join(s.VerifDir, "go.sum")); err == nil {
		_ = os.WriteFile(filepath.Join(s.OutDir, "go.sum"), b, 0o644)
	}
	return stats, nil
}
