// Package instr is the source-to-source pass that puts a Go package under the simulator: imports of
// sync, sync/atomic, time, context and math/rand go to the shim packages, go statements become
// simrt.Go, every channel operation is bracketed by scheduling points, select becomes a seeded
// poll-then-block, ranging over maps becomes seeded, and allocations get deterministic identities.
// It is generic: it knows nothing about the package it rewrites.
package instr

import (
	"bytes"
	"fmt"
	"go/ast"
	"go/format"
	"go/importer"
	"go/parser"
	"go/token"
	"go/types"
	"os"
	"path/filepath"
	"sort"
	"strconv"
	"strings"

	"golang.org/x/tools/go/ast/astutil"
)

const SimrtPath = "bbsim/simrt"

// Options describes one package to instrument.
type Options struct {
	SrcDir    string            // directory holding the package's .go files
	OutDir    string            // where the rewritten files go
	PkgPath   string            // import path under which the source package is type-checked
	ImportMap map[string]string // import path rewrites applied to the output
	Lib       bool              // goroutines started by this package are "library" tasks
	Importer  types.Importer    // for type-checking; nil = std source importer
	DropDecls map[string]bool   // top-level identifiers whose declarations are removed (context aliases)
	SkipFile  func(name string) bool
	Tag       string // prefix for site names
	WithTests bool   // include _test.go files (passthrough validation)
}

// Result carries the type-checked package so that dependants can import it.
type Result struct {
	Pkg   *types.Package
	Sites int
	Stats map[string]int
}

type rewriter struct {
	opt       Options
	fset      *token.FileSet
	info      *types.Info
	pkg       *types.Package
	file      *ast.File
	fileBase  string
	funcs     []string
	ord       map[string]int
	uniq      int
	needSim   bool
	addImp    map[string]string // path -> name, imports to add to the current file
	stats     map[string]int
	err       error
	selBlocks map[*ast.BlockStmt]bool
}

var stdImporter types.Importer

// StdImporter returns a shared importer that type-checks standard-library packages from source.
func StdImporter(fset *token.FileSet) types.Importer {
	if stdImporter == nil {
		stdImporter = importer.ForCompiler(fset, "source", nil)
	}
	return stdImporter
}

// Instrument rewrites one package.
func Instrument(fset *token.FileSet, opt Options) (*Result, error) {
	ents, err := os.ReadDir(opt.SrcDir)
	if err != nil {
		return nil, err
	}
	var names []string
	for _, e := range ents {
		n := e.Name()
		if e.IsDir() || !strings.HasSuffix(n, ".go") || (strings.HasSuffix(n, "_test.go") && !opt.WithTests) {
			continue
		}
		if opt.SkipFile != nil && opt.SkipFile(n) {
			continue
		}
		names = append(names, n)
	}
	sort.Strings(names)
	var files []*ast.File
	for _, n := range names {
		f, err := parser.ParseFile(fset, filepath.Join(opt.SrcDir, n), nil, 0)
		if err != nil {
			return nil, fmt.Errorf("parse %s: %w", n, err)
		}
		files = append(files, f)
	}
	if len(files) == 0 {
		return nil, fmt.Errorf("no go files in %s", opt.SrcDir)
	}
	imp := opt.Importer
	if imp == nil {
		imp = StdImporter(fset)
	}
	info := &types.Info{
		Types:      map[ast.Expr]types.TypeAndValue{},
		Defs:       map[*ast.Ident]types.Object{},
		Uses:       map[*ast.Ident]types.Object{},
		Selections: map[*ast.SelectorExpr]*types.Selection{},
		Implicits:  map[ast.Node]types.Object{},
	}
	var terrs []string
	conf := types.Config{Importer: imp, Error: func(err error) {
		if len(terrs) < 10 {
			terrs = append(terrs, err.Error())
		}
	}}
	pkg, _ := conf.Check(opt.PkgPath, fset, files, info)
	if len(terrs) > 0 {
		return nil, fmt.Errorf("type-check %s: %s", opt.PkgPath, strings.Join(terrs, "; "))
	}
	if err := os.MkdirAll(opt.OutDir, 0o755); err != nil {
		return nil, err
	}
	res := &Result{Pkg: pkg, Stats: map[string]int{}}
	for i, f := range files {
		rw := &rewriter{opt: opt, fset: fset, info: info, pkg: pkg, file: f, fileBase: strings.TrimSuffix(names[i], ".go"),
			ord: map[string]int{}, addImp: map[string]string{}, stats: res.Stats}
		if err := rw.rewriteFile(); err != nil {
			return nil, fmt.Errorf("%s: %w", names[i], err)
		}
		var buf bytes.Buffer
		if err := format.Node(&buf, fset, f); err != nil {
			return nil, fmt.Errorf("print %s: %w", names[i], err)
		}
		if err := os.WriteFile(filepath.Join(opt.OutDir, names[i]), buf.Bytes(), 0o644); err != nil {
			return nil, err
		}
		res.Sites += rw.uniq
	}
	return res, nil
}

func (rw *rewriter) fail(n ast.Node, format string, args ...any) {
	if rw.err == nil {
		rw.err = fmt.Errorf("%s: %s", rw.fset.Position(n.Pos()), fmt.Sprintf(format, args...))
	}
}

func (rw *rewriter) site(kind string) *ast.BasicLit {
	fn := "init"
	if len(rw.funcs) > 0 {
		fn = rw.funcs[0]
	}
	key := fn + ":" + kind
	rw.ord[key]++
	rw.stats[kind]++
	s := fmt.Sprintf("%s%s.%s:%s%d", rw.opt.Tag, rw.fileBase, fn, kind, rw.ord[key])
	return &ast.BasicLit{Kind: token.STRING, Value: strconv.Quote(s)}
}

func (rw *rewriter) tmp(prefix string) *ast.Ident {
	rw.uniq++
	return ast.NewIdent(fmt.Sprintf("_%s%d", prefix, rw.uniq))
}

func (rw *rewriter) sim(name string) ast.Expr {
	rw.needSim = true
	return &ast.SelectorExpr{X: ast.NewIdent("simrt"), Sel: ast.NewIdent(name)}
}

func (rw *rewriter) simCall(name string, args ...ast.Expr) *ast.CallExpr {
	return &ast.CallExpr{Fun: rw.sim(name), Args: args}
}

func define(lhs ast.Expr, rhs ast.Expr) *ast.AssignStmt {
	return &ast.AssignStmt{Lhs: []ast.Expr{lhs}, Tok: token.DEFINE, Rhs: []ast.Expr{rhs}}
}

func assign(lhs ast.Expr, rhs ast.Expr) *ast.AssignStmt {
	return &ast.AssignStmt{Lhs: []ast.Expr{lhs}, Tok: token.ASSIGN, Rhs: []ast.Expr{rhs}}
}

func intLit(i int) *ast.BasicLit { return &ast.BasicLit{Kind: token.INT, Value: strconv.Itoa(i)} }

func isRecv(e ast.Expr) *ast.UnaryExpr {
	for {
		p, ok := e.(*ast.ParenExpr)
		if !ok {
			break
		}
		e = p.X
	}
	if u, ok := e.(*ast.UnaryExpr); ok && u.Op == token.ARROW {
		return u
	}
	return nil
}

func (rw *rewriter) isBuiltin(fun ast.Expr, name string) bool {
	id, ok := fun.(*ast.Ident)
	if !ok || id.Name != name {
		return false
	}
	_, isB := rw.info.Uses[id].(*types.Builtin)
	return isB
}

func (rw *rewriter) pkgFunc(fun ast.Expr, pkgPath, name string) bool {
	sel, ok := fun.(*ast.SelectorExpr)
	if !ok || sel.Sel.Name != name {
		return false
	}
	fn, ok := rw.info.Uses[sel.Sel].(*types.Func)
	return ok && fn.Pkg() != nil && fn.Pkg().Path() == pkgPath
}

func (rw *rewriter) reflectValueMethod(call *ast.CallExpr) (string, ast.Expr) {
	sel, ok := call.Fun.(*ast.SelectorExpr)
	if !ok {
		return "", nil
	}
	switch sel.Sel.Name {
	case "TryRecv", "TrySend", "Recv", "Send", "Close":
	default:
		return "", nil
	}
	s := rw.info.Selections[sel]
	if s == nil || s.Kind() != types.MethodVal {
		return "", nil
	}
	t := s.Recv()
	if p, ok := t.(*types.Pointer); ok {
		t = p.Elem()
	}
	n, ok := t.(*types.Named)
	if !ok || n.Obj().Pkg() == nil || n.Obj().Pkg().Path() != "reflect" || n.Obj().Name() != "Value" {
		return "", nil
	}
	return sel.Sel.Name, sel.X
}

func (rw *rewriter) rewriteFile() error {
	f := rw.file
	// drop declarations (context aliases)
	if len(rw.opt.DropDecls) > 0 {
		var decls []ast.Decl
		for _, d := range f.Decls {
			gd, ok := d.(*ast.GenDecl)
			if !ok {
				decls = append(decls, d)
				continue
			}
			var specs []ast.Spec
			for _, sp := range gd.Specs {
				keep := true
				switch sp := sp.(type) {
				case *ast.TypeSpec:
					keep = !rw.opt.DropDecls[sp.Name.Name]
				case *ast.ValueSpec:
					if len(sp.Names) == 1 && rw.opt.DropDecls[sp.Names[0].Name] {
						keep = false
					}
				}
				if keep {
					specs = append(specs, sp)
				}
			}
			if len(specs) > 0 {
				gd.Specs = specs
				decls = append(decls, gd)
			}
		}
		f.Decls = decls
	}

	astutil.Apply(f, rw.pre, rw.post)
	if rw.err != nil {
		return rw.err
	}
	// imports
	for _, is := range f.Imports {
		p, _ := strconv.Unquote(is.Path.Value)
		if np, ok := rw.opt.ImportMap[p]; ok {
			if is.Name == nil {
				// keep the local name the source relied on
				base := p[strings.LastIndex(p, "/")+1:]
				nbase := np[strings.LastIndex(np, "/")+1:]
				if base != nbase {
					is.Name = ast.NewIdent(base)
				}
			}
			is.Path.Value = strconv.Quote(np)
		}
	}
	if rw.needSim {
		astutil.AddImport(rw.fset, f, SimrtPath)
	}
	for p, n := range rw.addImp {
		if np, ok := rw.opt.ImportMap[p]; ok {
			p = np
		}
		astutil.AddNamedImport(rw.fset, f, n, p)
	}
	// the pass rewrites calls away from these two packages only; an import that became unused goes
	for _, is := range append([]*ast.ImportSpec(nil), f.Imports...) {
		if is == nil {
			continue
		}
		p, _ := strconv.Unquote(is.Path.Value)
		if p != "runtime" && p != "reflect" && len(rw.opt.DropDecls) == 0 {
			continue
		}
		name := p[strings.LastIndex(p, "/")+1:]
		if is.Name != nil {
			name = is.Name.Name
		}
		if name == "_" || name == "." || usesName(f, name) {
			continue
		}
		if is.Name != nil {
			astutil.DeleteNamedImport(rw.fset, f, is.Name.Name, p)
		} else {
			astutil.DeleteImport(rw.fset, f, p)
		}
	}
	return nil
}

func usesName(f *ast.File, name string) bool {
	used := false
	ast.Inspect(f, func(n ast.Node) bool {
		if sel, ok := n.(*ast.SelectorExpr); ok {
			if id, ok := sel.X.(*ast.Ident); ok && id.Name == name {
				used = true
			}
		}
		return !used
	})
	return used
}

func (rw *rewriter) pre(c *astutil.Cursor) bool {
	switch n := c.Node().(type) {
	case *ast.FuncDecl:
		name := n.Name.Name
		if n.Recv != nil && len(n.Recv.List) == 1 {
			t := n.Recv.List[0].Type
			for {
				switch x := t.(type) {
				case *ast.StarExpr:
					t = x.X
					continue
				case *ast.IndexExpr:
					t = x.X
					continue
				case *ast.IndexListExpr:
					t = x.X
					continue
				case *ast.ParenExpr:
					t = x.X
					continue
				}
				break
			}
			if id, ok := t.(*ast.Ident); ok {
				name = id.Name + "." + name
			}
		}
		rw.funcs = append([]string{name}, rw.funcs...)
	case *ast.ImportSpec:
		return false
	}
	return true
}

func (rw *rewriter) post(c *astutil.Cursor) bool {
	if rw.err != nil {
		return false
	}
	switch n := c.Node().(type) {
	case *ast.FuncDecl:
		rw.funcs = rw.funcs[1:]

	case *ast.GoStmt:
		c.Replace(rw.goStmt(n))

	case *ast.SendStmt:
		if cc, ok := c.Parent().(*ast.CommClause); ok && cc.Comm == ast.Stmt(n) {
			return true
		}
		// a send panics when the channel is (or gets) closed: the baton protocol must be completed on
		// that path too, or a recovered panic would leave the task running outside the scheduler
		t := rw.tmp("t")
		c.Replace(&ast.BlockStmt{List: []ast.Stmt{
			define(t, rw.simCall("YieldChan", rw.site("send"))),
			&ast.ExprStmt{X: &ast.CallExpr{Fun: &ast.FuncLit{
				Type: &ast.FuncType{Params: &ast.FieldList{}},
				Body: &ast.BlockStmt{List: []ast.Stmt{
					&ast.DeferStmt{Call: rw.simCall("Resume", t)},
					n,
				}},
			}}},
		}})

	case *ast.UnaryExpr:
		switch n.Op {
		case token.ARROW:
			switch p := c.Parent().(type) {
			case *ast.ExprStmt:
				return true // handled at the statement
			case *ast.AssignStmt:
				if len(p.Rhs) == 1 && p.Rhs[0] == ast.Expr(n) {
					return true // handled at the statement
				}
			}
			c.Replace(rw.simCall("Recv", rw.site("recv"), n.X))
		case token.AND:
			if _, ok := n.X.(*ast.CompositeLit); ok && len(rw.funcs) > 0 {
				c.Replace(rw.simCall("Reg", n))
			}
		}

	case *ast.ExprStmt:
		if u := isRecv(n.X); u != nil {
			if cc, ok := c.Parent().(*ast.CommClause); ok && cc.Comm == ast.Stmt(n) {
				return true
			}
			t := rw.tmp("t")
			c.Replace(&ast.BlockStmt{List: []ast.Stmt{
				define(t, rw.simCall("YieldChan", rw.site("recv"))),
				n,
				&ast.ExprStmt{X: rw.simCall("Resume", t)},
			}})
		}

	case *ast.AssignStmt:
		if len(n.Rhs) != 1 {
			return true
		}
		u := isRecv(n.Rhs[0])
		if u == nil {
			return true
		}
		if cc, ok := c.Parent().(*ast.CommClause); ok && cc.Comm == ast.Stmt(n) {
			return true
		}
		if c.Index() >= 0 {
			t := rw.tmp("t")
			c.InsertBefore(define(t, rw.simCall("YieldChan", rw.site("recv"))))
			c.InsertAfter(&ast.ExprStmt{X: rw.simCall("Resume", t)})
			return true
		}
		// init position of if/for/switch: expression form
		if len(n.Lhs) == 2 {
			n.Rhs[0] = rw.simCall("Recv2", rw.site("recv"), u.X)
		} else {
			n.Rhs[0] = rw.simCall("Recv", rw.site("recv"), u.X)
		}

	case *ast.CallExpr:
		switch {
		case rw.isBuiltin(n.Fun, "close") && len(n.Args) == 1:
			c.Replace(rw.simCall("Close", rw.site("close"), n.Args[0]))
		case rw.isBuiltin(n.Fun, "new") && len(rw.funcs) > 0:
			if p, ok := c.Parent().(*ast.CallExpr); ok && isSimReg(p) {
				return true
			}
			c.Replace(rw.simCall("Reg", n))
		case rw.isBuiltin(n.Fun, "make") && len(rw.funcs) > 0:
			if tv, ok := rw.info.Types[n]; ok {
				switch tv.Type.Underlying().(type) {
				case *types.Chan, *types.Map:
					c.Replace(rw.simCall("Reg", n))
				}
			}
		case rw.pkgFunc(n.Fun, "reflect", "Select"):
			c.Replace(rw.simCall("ReflectSelect", append([]ast.Expr{rw.site("rselect")}, n.Args...)...))
		case rw.pkgFunc(n.Fun, "runtime", "Gosched"):
			c.Replace(rw.simCall("Gosched", rw.site("gosched")))
		default:
			if m, recv := rw.reflectValueMethod(n); m != "" {
				c.Replace(rw.simCall("Reflect"+m, append([]ast.Expr{rw.site("r" + strings.ToLower(m)), recv}, n.Args...)...))
			}
		}

	case *ast.RangeStmt:
		tv, ok := rw.info.Types[n.X]
		if !ok {
			return true
		}
		switch tv.Type.Underlying().(type) {
		case *types.Map:
			c.Replace(rw.rangeMap(n))
		case *types.Chan:
			c.Replace(rw.rangeChan(n))
		default:
			// a type parameter whose core type is a channel or map
			if tp, ok := tv.Type.(*types.TypeParam); ok {
				if ct := coreType(tp); ct != nil {
					switch ct.(type) {
					case *types.Map:
						c.Replace(rw.rangeMap(n))
					case *types.Chan:
						c.Replace(rw.rangeChan(n))
					}
				}
			}
		}

	case *ast.SelectStmt:
		blk := rw.selectStmt(n)
		if b, ok := blk.(*ast.BlockStmt); ok {
			if rw.selBlocks == nil {
				rw.selBlocks = map[*ast.BlockStmt]bool{}
			}
			rw.selBlocks[b] = true
		}
		c.Replace(blk)

	case *ast.LabeledStmt:
		// a label on a select ("break L" out of it): move it onto the switch that now holds the bodies
		if b, ok := n.Stmt.(*ast.BlockStmt); ok && rw.selBlocks[b] && len(b.List) > 0 {
			last := len(b.List) - 1
			b.List[last] = &ast.LabeledStmt{Label: n.Label, Stmt: b.List[last]}
			c.Replace(b)
		}
	}
	return true
}

func coreType(tp *types.TypeParam) types.Type {
	iface, ok := tp.Constraint().Underlying().(*types.Interface)
	if !ok {
		return nil
	}
	var ct types.Type
	for i := 0; i < iface.NumEmbeddeds(); i++ {
		switch e := iface.EmbeddedType(i).(type) {
		case *types.Union:
			for j := 0; j < e.Len(); j++ {
				ct = e.Term(j).Type().Underlying()
			}
		default:
			ct = e.Underlying()
		}
	}
	return ct
}

func isSimReg(call *ast.CallExpr) bool {
	sel, ok := call.Fun.(*ast.SelectorExpr)
	if !ok {
		return false
	}
	id, ok := sel.X.(*ast.Ident)
	return ok && id.Name == "simrt" && sel.Sel.Name == "Reg"
}

func usesLabelBreak(n ast.Node, label string) bool {
	found := false
	ast.Inspect(n, func(x ast.Node) bool {
		if b, ok := x.(*ast.BranchStmt); ok && b.Tok == token.BREAK && b.Label != nil && b.Label.Name == label {
			found = true
		}
		return !found
	})
	return found
}

// go f(a, b)  =>  { _f, _a, _b := f, a, b; simrt.Go(site, lib, func() { _f(_a, _b) }) }
func (rw *rewriter) goStmt(g *ast.GoStmt) ast.Stmt {
	lib := ast.NewIdent(strconv.FormatBool(rw.opt.Lib))
	call := g.Call
	site := rw.site("go")
	if fl, ok := call.Fun.(*ast.FuncLit); ok && len(call.Args) == 0 {
		return &ast.ExprStmt{X: rw.simCall("Go", site, lib, fl)}
	}
	var stmts []ast.Stmt
	f := rw.tmp("f")
	stmts = append(stmts, define(f, call.Fun))
	var args []ast.Expr
	for _, a := range call.Args {
		if tv, ok := rw.info.Types[a]; ok && (tv.Value != nil || tv.IsNil()) {
			// constant (or nil) operand: keep it in place (hoisting an untyped constant into `_a := 0`
			// would give it its default type and break e.g. `go f(x, 0)` with a uint64 parameter)
			args = append(args, a)
			continue
		}
		t := rw.tmp("a")
		stmts = append(stmts, define(t, a))
		args = append(args, t)
	}
	inner := &ast.CallExpr{Fun: f, Args: args, Ellipsis: call.Ellipsis}
	if call.Ellipsis == token.NoPos {
		inner.Ellipsis = token.NoPos
	} else {
		inner.Ellipsis = 1
	}
	body := &ast.FuncLit{Type: &ast.FuncType{Params: &ast.FieldList{}}, Body: &ast.BlockStmt{List: []ast.Stmt{&ast.ExprStmt{X: inner}}}}
	stmts = append(stmts, &ast.ExprStmt{X: rw.simCall("Go", site, lib, body)})
	return &ast.BlockStmt{List: stmts}
}

// for k, v := range m { body }  =>
// for _, _e := range simrt.MapIter(m) { v, _ok := _e.Get(); if !_ok { continue }; k := _e.K; body }
func (rw *rewriter) rangeMap(r *ast.RangeStmt) ast.Stmt {
	if r.Tok == token.ASSIGN {
		rw.fail(r, "range over a map with '=' is not supported by the instrumentation pass")
		return r
	}
	rw.stats["rangemap"]++
	e := rw.tmp("e")
	ok := rw.tmp("ok")
	var pre []ast.Stmt
	blank := func(x ast.Expr) bool {
		if x == nil {
			return true
		}
		id, isID := x.(*ast.Ident)
		return isID && id.Name == "_"
	}
	var vLhs ast.Expr = ast.NewIdent("_")
	if !blank(r.Value) {
		vLhs = r.Value
	}
	pre = append(pre,
		&ast.AssignStmt{Lhs: []ast.Expr{vLhs, ok}, Tok: token.DEFINE, Rhs: []ast.Expr{&ast.CallExpr{Fun: &ast.SelectorExpr{X: e, Sel: ast.NewIdent("Get")}}}},
		&ast.IfStmt{Cond: &ast.UnaryExpr{Op: token.NOT, X: ok}, Body: &ast.BlockStmt{List: []ast.Stmt{&ast.BranchStmt{Tok: token.CONTINUE}}}},
	)
	if !blank(r.Key) {
		pre = append(pre, define(r.Key, &ast.SelectorExpr{X: e, Sel: ast.NewIdent("K")}))
		// the key may be unused in the body only if the source had it unused, which Go rejects
	}
	body := &ast.BlockStmt{List: append(pre, r.Body.List...)}
	return &ast.RangeStmt{Key: ast.NewIdent("_"), Value: e, Tok: token.DEFINE, X: rw.simCall("MapIter", r.X), Body: body}
}

// for v := range ch { body }  =>
// for _c := ch; ; { _t := YieldChan; v, _ok := <-_c; Resume(_t); if !_ok { break }; body }
func (rw *rewriter) rangeChan(r *ast.RangeStmt) ast.Stmt {
	if r.Tok == token.ASSIGN {
		rw.fail(r, "range over a channel with '=' is not supported by the instrumentation pass")
		return r
	}
	rw.stats["rangechan"]++
	ch := rw.tmp("c")
	t := rw.tmp("t")
	ok := rw.tmp("ok")
	var v ast.Expr = ast.NewIdent("_")
	if r.Key != nil {
		v = r.Key
	}
	pre := []ast.Stmt{
		define(t, rw.simCall("YieldChan", rw.site("recv"))),
		&ast.AssignStmt{Lhs: []ast.Expr{v, ok}, Tok: token.DEFINE, Rhs: []ast.Expr{&ast.UnaryExpr{Op: token.ARROW, X: ch}}},
		&ast.ExprStmt{X: rw.simCall("Resume", t)},
		&ast.IfStmt{Cond: &ast.UnaryExpr{Op: token.NOT, X: ok}, Body: &ast.BlockStmt{List: []ast.Stmt{&ast.BranchStmt{Tok: token.BREAK}}}},
	}
	return &ast.ForStmt{Init: define(ch, r.X), Body: &ast.BlockStmt{List: append(pre, r.Body.List...)}}
}

func (rw *rewriter) typeExpr(t types.Type, at ast.Node) ast.Expr {
	s := types.TypeString(t, func(p *types.Package) string {
		if p == rw.pkg {
			return ""
		}
		// find the name this file imports p under
		for _, is := range rw.file.Imports {
			ip, _ := strconv.Unquote(is.Path.Value)
			if ip == p.Path() {
				if is.Name != nil {
					return is.Name.Name
				}
				return p.Name()
			}
		}
		rw.addImp[p.Path()] = p.Name()
		return p.Name()
	})
	e, err := parser.ParseExpr(s)
	if err != nil {
		rw.fail(at, "cannot express type %s: %v", s, err)
		return ast.NewIdent("any")
	}
	return e
}

// selectStmt rewrites a select into: evaluate operands once; scheduling point; poll the cases one
// at a time starting at a seeded offset; if none is ready and there is no default, block in the
// real select; then run the chosen body from a switch.
func (rw *rewriter) selectStmt(sel *ast.SelectStmt) ast.Stmt {
	rw.stats["select"]++
	site := rw.site("select")
	type caseInfo struct {
		cc    *ast.CommClause
		ch    *ast.Ident // operand temporaries
		val   *ast.Ident // send value temporary
		comm  func() ast.Stmt
		extra []ast.Stmt // statements to run at the start of the body (define-form copies)
	}
	var (
		stmts   []ast.Stmt
		cases   []*caseInfo
		defBody []ast.Stmt
		hasDef  bool
	)
	idx := rw.tmp("i")
	for _, cl := range sel.Body.List {
		cc := cl.(*ast.CommClause)
		if cc.Comm == nil {
			hasDef = true
			defBody = cc.Body
			continue
		}
		ci := &caseInfo{cc: cc}
		switch cm := cc.Comm.(type) {
		case *ast.SendStmt:
			ci.ch = rw.tmp("c")
			ci.val = rw.tmp("s")
			stmts = append(stmts, define(ci.ch, cm.Chan), define(ci.val, cm.Value))
			ch, val := ci.ch, ci.val
			ci.comm = func() ast.Stmt { return &ast.SendStmt{Chan: ch, Value: val} }
		case *ast.ExprStmt:
			u := isRecv(cm.X)
			if u == nil {
				rw.fail(cm, "unexpected select case")
				return sel
			}
			ci.ch = rw.tmp("c")
			stmts = append(stmts, define(ci.ch, u.X))
			ch := ci.ch
			ci.comm = func() ast.Stmt { return &ast.ExprStmt{X: &ast.UnaryExpr{Op: token.ARROW, X: ch}} }
		case *ast.AssignStmt:
			u := isRecv(cm.Rhs[0])
			if u == nil {
				rw.fail(cm, "unexpected select case")
				return sel
			}
			ci.ch = rw.tmp("c")
			stmts = append(stmts, define(ci.ch, u.X))
			ch := ci.ch
			if cm.Tok == token.ASSIGN {
				lhs := cm.Lhs
				ci.comm = func() ast.Stmt {
					return &ast.AssignStmt{Lhs: lhs, Tok: token.ASSIGN, Rhs: []ast.Expr{&ast.UnaryExpr{Op: token.ARROW, X: ch}}}
				}
			} else {
				// define form: hoist typed temporaries, copy into the user's names inside the body
				var tmps []ast.Expr
				for k, l := range cm.Lhs {
					id, ok := l.(*ast.Ident)
					if !ok {
						rw.fail(cm, "unexpected select define")
						return sel
					}
					if id.Name == "_" {
						tmps = append(tmps, ast.NewIdent("_"))
						continue
					}
					var typ types.Type
					if obj := rw.info.Defs[id]; obj != nil {
						typ = obj.Type()
					}
					if typ == nil {
						rw.fail(cm, "no type for select variable %s", id.Name)
						return sel
					}
					t := rw.tmp("v")
					if k == 1 {
						t = rw.tmp("ok")
					}
					stmts = append(stmts, &ast.DeclStmt{Decl: &ast.GenDecl{Tok: token.VAR, Specs: []ast.Spec{
						&ast.ValueSpec{Names: []*ast.Ident{t}, Type: rw.typeExpr(typ, cm)}}}})
					tmps = append(tmps, t)
					ci.extra = append(ci.extra, define(ast.NewIdent(id.Name), t), assign(ast.NewIdent("_"), ast.NewIdent(id.Name)))
				}
				ci.comm = func() ast.Stmt {
					lhs := make([]ast.Expr, len(tmps))
					for i, t := range tmps {
						lhs[i] = ast.NewIdent(t.(*ast.Ident).Name)
					}
					return &ast.AssignStmt{Lhs: lhs, Tok: token.ASSIGN, Rhs: []ast.Expr{&ast.UnaryExpr{Op: token.ARROW, X: ch}}}
				}
			}
		default:
			rw.fail(cc, "unexpected select case")
			return sel
		}
		cases = append(cases, ci)
	}
	n := len(cases)
	setIdx := func(k int) ast.Stmt { return assign(idx, intLit(k)) }
	tok := rw.tmp("t")
	stmts = append(stmts,
		define(idx, &ast.UnaryExpr{Op: token.SUB, X: intLit(1)}),
		define(tok, rw.simCall("YieldChan", site)),
	)
	hasSend := false
	for _, ci := range cases {
		if ci.val != nil {
			hasSend = true
		}
	}
	opsFrom := len(stmts)
	if n > 0 {
		// poll phase
		k := rw.tmp("k")
		j := rw.tmp("j")
		var pollCases []ast.Stmt
		for i, ci := range cases {
			one := &ast.SelectStmt{Body: &ast.BlockStmt{List: []ast.Stmt{
				&ast.CommClause{Comm: ci.comm(), Body: []ast.Stmt{setIdx(i)}},
				&ast.CommClause{},
			}}}
			pollCases = append(pollCases, &ast.CaseClause{List: []ast.Expr{intLit(i)}, Body: []ast.Stmt{one}})
		}
		// for _j, _k := 0, simrt.SelectStart(n); _j < n && _i < 0; _j, _k = _j+1, (_k+1)%n { switch _k {...} }
		loop := &ast.ForStmt{
			Init: &ast.AssignStmt{Lhs: []ast.Expr{j, k}, Tok: token.DEFINE, Rhs: []ast.Expr{intLit(0), rw.simCall("SelectStart", intLit(n))}},
			Cond: &ast.BinaryExpr{X: &ast.BinaryExpr{X: j, Op: token.LSS, Y: intLit(n)}, Op: token.LAND, Y: &ast.BinaryExpr{X: idx, Op: token.LSS, Y: intLit(0)}},
			Post: &ast.AssignStmt{Lhs: []ast.Expr{j, k}, Tok: token.ASSIGN, Rhs: []ast.Expr{
				&ast.BinaryExpr{X: j, Op: token.ADD, Y: intLit(1)},
				&ast.BinaryExpr{X: &ast.ParenExpr{X: &ast.BinaryExpr{X: k, Op: token.ADD, Y: intLit(1)}}, Op: token.REM, Y: intLit(n)},
			}},
			Body: &ast.BlockStmt{List: []ast.Stmt{&ast.SwitchStmt{Tag: k, Body: &ast.BlockStmt{List: pollCases}}}},
		}
		stmts = append(stmts, loop)
	}
	if !hasDef {
		// blocking phase
		var real []ast.Stmt
		for i, ci := range cases {
			real = append(real, &ast.CommClause{Comm: ci.comm(), Body: []ast.Stmt{setIdx(i)}})
		}
		blocking := &ast.SelectStmt{Body: &ast.BlockStmt{List: real}}
		stmts = append(stmts, &ast.IfStmt{
			Cond: &ast.BinaryExpr{X: idx, Op: token.LSS, Y: intLit(0)},
			Body: &ast.BlockStmt{List: []ast.Stmt{blocking}},
		})
	}
	if hasSend {
		// a send case panics when its channel is closed: complete the baton protocol on that path too
		ops := append([]ast.Stmt{&ast.DeferStmt{Call: rw.simCall("Resume", tok)}}, stmts[opsFrom:]...)
		stmts = append(stmts[:opsFrom:opsFrom], &ast.ExprStmt{X: &ast.CallExpr{Fun: &ast.FuncLit{
			Type: &ast.FuncType{Params: &ast.FieldList{}},
			Body: &ast.BlockStmt{List: ops},
		}}})
	} else {
		stmts = append(stmts, &ast.ExprStmt{X: rw.simCall("Resume", tok)})
	}
	// bodies
	var clauses []ast.Stmt
	for i, ci := range cases {
		body := append(append([]ast.Stmt{}, ci.extra...), ci.cc.Body...)
		clauses = append(clauses, &ast.CaseClause{List: []ast.Expr{intLit(i)}, Body: body})
	}
	if hasDef {
		clauses = append(clauses, &ast.CaseClause{Body: defBody})
	} else {
		// keeps the statement terminating when every case body is (as the select was)
		clauses = append(clauses, &ast.CaseClause{Body: []ast.Stmt{&ast.ExprStmt{X: &ast.CallExpr{Fun: ast.NewIdent("panic"),
			Args: []ast.Expr{&ast.BasicLit{Kind: token.STRING, Value: `"bbsim: select rewrite: no case chosen"`}}}}}})
	}
	stmts = append(stmts, &ast.SwitchStmt{Tag: idx, Body: &ast.BlockStmt{List: clauses}})
	return &ast.BlockStmt{List: stmts}
}

// DefaultImportMap is the import rewriting applied to every instrumented package. mod is the
// scratch module that holds the generated packages.
func DefaultImportMap(mod string) map[string]string {
	return map[string]string{
		"sync":                              "bbsim/shim/sync",
		"sync/atomic":                       "bbsim/shim/atomic",
		"time":                              "bbsim/shim/time",
		"math/rand":                         "bbsim/shim/rand",
		"context":                           mod + "/simctx",
		"internal/reflectlite":              "reflect",
		"github.com/joeycumines/go-bigbuff": mod + "/bigbuff",
	}
}
