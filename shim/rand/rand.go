// Package rand replaces math/rand: the top-level draw functions take their values from the
// simulator's schedule stream (biased towards the extremes), so that random back-off slots are part
// of the replayable choice vector.
package rand

import (
	"bbsim/simrt"
	real "math/rand"
)

type (
	Rand   = real.Rand
	Source = real.Source
	Zipf   = real.Zipf
)

func New(src Source) *Rand        { return real.New(src) }
func NewSource(seed int64) Source { return real.NewSource(seed) }
func Seed(seed int64)             { real.Seed(seed) }

func draw(n int64) int64 {
	if n <= 1 {
		return 0
	}
	if !simrt.Active() {
		return real.Int63n(n)
	}
	simrt.Probe("rand_draw")
	v := pick(n)
	simrt.NoteRand(n, v)
	return v
}

func pick(n int64) int64 {
	switch simrt.SchedDraw(4) {
	case 0:
		return 0
	case 1:
		return n - 1
	case 2:
		m := n
		if m > 1<<20 {
			m = 1 << 20
		}
		return int64(simrt.SchedDraw(int(m)))
	default:
		// a value spread over the whole range
		m := int64(1 << 20)
		k := int64(simrt.SchedDraw(int(m)))
		if n <= m {
			return k % n
		}
		return k * (n / m)
	}
}

func Int63n(n int64) int64 {
	if n <= 0 {
		panic("invalid argument to Int63n")
	}
	return draw(n)
}
func Int31n(n int32) int32 {
	if n <= 0 {
		panic("invalid argument to Int31n")
	}
	return int32(draw(int64(n)))
}
func Intn(n int) int {
	if n <= 0 {
		panic("invalid argument to Intn")
	}
	return int(draw(int64(n)))
}
func Int63() int64     { return draw(1<<63 - 1) }
func Int31() int32     { return int32(draw(1<<31 - 1)) }
func Int() int         { return int(draw(1<<63 - 1)) }
func Uint32() uint32   { return uint32(draw(1 << 32)) }
func Uint64() uint64   { return uint64(draw(1<<63 - 1)) }
func Float64() float64 { return float64(draw(1<<53)) / (1 << 53) }
func Float32() float32 { return float32(draw(1<<24)) / (1 << 24) }
func Perm(n int) []int {
	p := make([]int, n)
	for i := range p {
		p[i] = i
	}
	Shuffle(n, func(i, j int) { p[i], p[j] = p[j], p[i] })
	return p
}
func Shuffle(n int, swap func(i, j int)) {
	for i := n - 1; i > 0; i-- {
		swap(i, int(draw(int64(i+1))))
	}
}
