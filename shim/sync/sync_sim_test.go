package sync_test

import (
	"testing"
	"testing/synctest"
	"time"

	"bbsim/shim/sync"
	stime "bbsim/shim/time"
	"bbsim/simrt"
)

// run executes main as a simulated program under many seeds and returns nothing: the bodies assert
// through t. Test code is not instrumented, so goroutines are started with simrt.Go and channel
// operations are avoided; everything observable goes through the shims.
func run(t *testing.T, seeds int, main func(fail func(string, ...any))) {
	t.Helper()
	for seed := 0; seed < seeds; seed++ {
		var res *simrt.Result
		done := make(chan struct{})
		go func() {
			defer close(done)
			defer func() { _ = recover() }()
			synctest.Test(t, func(t *testing.T) {
				cfg := simrt.Config{Strategy: seed % 3, StayProb: 0.8, TimerProb: 0.2, PCTDepth: 2, PCTLen: 50, MaxSteps: 20000}
				res = simrt.Run(cfg, simrt.NewStream(uint64(seed)*7+1), simrt.NewStream(uint64(seed)*13+5), func() {
					main(func(f string, a ...any) { simrt.Failf("test", f, a...) })
				})
			})
		}()
		<-done
		if res == nil {
			t.Fatalf("seed %d: no result", seed)
		}
		if res.Fail != nil {
			t.Fatalf("seed %d: %s: %s", seed, res.Fail.Check, res.Fail.Msg)
		}
		if res.Aborted != "" {
			t.Fatalf("seed %d: aborted: %s %v", seed, res.Aborted, res.Leftover)
		}
	}
}

func TestMutexExclusionAndHandoff(t *testing.T) {
	run(t, 200, func(fail func(string, ...any)) {
		var mu sync.Mutex
		inside, total := 0, 0
		var wg sync.WaitGroup
		for i := 0; i < 3; i++ {
			wg.Add(1)
			simrt.Go("w", false, func() {
				defer wg.Done()
				for j := 0; j < 3; j++ {
					mu.Lock()
					inside++
					if inside != 1 {
						fail("two holders")
					}
					simrt.Yield("in")
					inside--
					total++
					mu.Unlock()
				}
			})
		}
		wg.Wait()
		if total != 9 {
			fail("total %d", total)
		}
		// unlock by another goroutine is allowed (Exclusive relies on it)
		mu.Lock()
		ok := false
		simrt.Go("u", false, func() { ok = true; mu.Unlock() })
		mu.Lock()
		if !ok {
			fail("second Lock returned before the other goroutine unlocked")
		}
		mu.Unlock()
		if mu.TryLock() != true {
			fail("TryLock on a free mutex failed")
		}
		if mu.TryLock() {
			fail("TryLock on a held mutex succeeded")
		}
		mu.Unlock()
		p := false
		func() {
			defer func() { p = recover() != nil }()
			mu.Unlock()
		}()
		if !p {
			fail("unlock of unlocked mutex did not panic")
		}
	})
}

func TestRWMutexWriterBlocksNewReaders(t *testing.T) {
	run(t, 300, func(fail func(string, ...any)) {
		var rw sync.RWMutex
		rw.RLock()
		writerIn, writerDone, readerIn := false, false, false
		simrt.Go("writer", false, func() {
			rw.Lock()
			writerIn = true
			if readerIn {
				fail("a reader that arrived after the writer announced itself got in before it")
			}
			simrt.Yield("w")
			writerDone = true
			rw.Unlock()
		})
		simrt.Quiesce(0) // the writer has announced itself and waits for the first reader
		if writerIn {
			fail("writer entered while a reader holds the lock")
		}
		if rw.TryRLock() {
			fail("TryRLock succeeded while a writer is pending")
		}
		if rw.TryLock() {
			fail("TryLock succeeded while a reader holds and a writer is pending")
		}
		simrt.Go("late-reader", false, func() {
			rw.RLock()
			readerIn = true
			if !writerDone {
				fail("late reader overtook the pending writer")
			}
			rw.RUnlock()
		})
		simrt.Quiesce(0)
		if readerIn {
			fail("late reader entered while a writer is pending")
		}
		rw.RUnlock()
		simrt.Quiesce(0)
		if !writerDone || !readerIn {
			fail("writer %v reader %v after the first reader left", writerDone, readerIn)
		}
	})
}

func TestRWMutexQueuedReadersBeforeNextWriter(t *testing.T) {
	run(t, 300, func(fail func(string, ...any)) {
		var rw sync.RWMutex
		rw.Lock()
		order := ""
		simrt.Go("r1", false, func() { rw.RLock(); order += "r"; simrt.Yield("r"); rw.RUnlock() })
		simrt.Quiesce(0) // r1 queued behind the holding writer
		simrt.Go("w2", false, func() { rw.Lock(); order += "w"; rw.Unlock() })
		simrt.Quiesce(0)
		rw.Unlock()
		simrt.Quiesce(0)
		if order != "rw" {
			fail("order %q: a reader queued behind a writer must be admitted by its Unlock, before the next writer", order)
		}
	})
}

func TestCondBroadcastOnlyReachesRegisteredWaiters(t *testing.T) {
	run(t, 300, func(fail func(string, ...any)) {
		var mu sync.Mutex
		c := sync.NewCond(&mu)
		c.Broadcast() // nobody waits: lost
		woke := 0
		for i := 0; i < 2; i++ {
			simrt.Go("waiter", false, func() {
				mu.Lock()
				c.Wait()
				woke++
				mu.Unlock()
			})
		}
		simrt.Quiesce(0)
		if woke != 0 {
			fail("a waiter woke from a broadcast issued before it waited")
		}
		mu.Lock()
		c.Signal()
		mu.Unlock()
		simrt.Quiesce(0)
		if woke != 1 {
			fail("Signal woke %d waiters", woke)
		}
		c.Broadcast()
		simrt.Quiesce(0)
		if woke != 2 {
			fail("Broadcast left a waiter asleep (%d)", woke)
		}
	})
}

func TestWaitGroupAndOnce(t *testing.T) {
	run(t, 200, func(fail func(string, ...any)) {
		var wg sync.WaitGroup
		n := 0
		for i := 0; i < 3; i++ {
			wg.Add(1)
			simrt.Go("w", false, func() { simrt.Yield("x"); n++; wg.Done() })
		}
		wg.Wait()
		if n != 3 {
			fail("Wait returned with %d of 3 done", n)
		}
		p := false
		func() { defer func() { p = recover() != nil }(); wg.Done() }()
		if !p {
			fail("negative WaitGroup counter did not panic")
		}
		var once sync.Once
		calls, after := 0, 0
		var wg2 sync.WaitGroup
		for i := 0; i < 3; i++ {
			wg2.Add(1)
			simrt.Go("o", false, func() {
				defer wg2.Done()
				once.Do(func() { simrt.Yield("in once"); calls++ })
				if calls != 1 {
					fail("Do returned before the first call completed")
				}
				after++
			})
		}
		wg2.Wait()
		if calls != 1 || after != 3 {
			fail("once: %d calls", calls)
		}
	})
}

func TestClock(t *testing.T) {
	run(t, 200, func(fail func(string, ...any)) {
		t0 := stime.Now()
		stime.Sleep(3 * time.Second)
		if d := stime.Since(t0); d != 3*time.Second {
			fail("Sleep(3s) advanced the clock by %v", d)
		}
		tm := stime.NewTimer(time.Second)
		simrt.Quiesce(-1) // fires
		if !func() bool {
			select {
			case <-tm.C:
				return true
			default:
				return false
			}
		}() {
			fail("timer did not deliver")
		}
		tm.Reset(time.Second)
		simrt.Quiesce(-1)
		if tm.Stop() {
			fail("Stop of an expired timer returned true")
		}
		select {
		case <-tm.C:
			fail("stale value receivable after Stop (Go 1.23 timer channel semantics)")
		default:
		}
		tk := stime.NewTicker(time.Second)
		simrt.Quiesce(3500 * time.Millisecond) // three ticks, slow receiver: two are dropped
		got := 0
		for {
			select {
			case <-tk.C:
				got++
				continue
			default:
			}
			break
		}
		if got != 1 {
			fail("ticker buffered %d ticks for a slow receiver", got)
		}
		tk.Stop()
		fired := false
		af := stime.AfterFunc(time.Second, func() { fired = true })
		stopped := af.Stop() // the scheduler may have let the second pass already: both outcomes are legal
		simrt.Quiesce(-1)
		if stopped == fired {
			fail("AfterFunc: Stop returned %v and the function ran=%v", stopped, fired)
		}
	})
}
