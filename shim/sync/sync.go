// Package sync is the simulator's replacement for the standard sync package. With a simulation
// active every operation is a scheduling point and blocking is simulator state (no OS thread ever
// blocks in here); without one, every type delegates to the real primitive (passthrough mode).
//
// The algorithms keep exactly the guarantees the real package documents: Mutex is unowned and allows
// barging; RWMutex blocks new readers once a writer has announced itself and releases the readers
// that queued behind a writer before the next writer; Cond registers the waiter before unlocking and
// Broadcast/Signal only reach registered waiters; Once and WaitGroup follow the real source.
package sync

import (
	"bbsim/simrt"
	realsync "sync"
)

type (
	Locker = realsync.Locker
	Map    = realsync.Map
)

// Pool: the real pool keeps per-processor caches and drops its contents at garbage collections, so
// whether a Get returns a recycled object depends on which processor the goroutine runs on: not
// replayable. The simulated pool is a stack: a Get returns the most recently Put object whenever there
// is one (the adversarial choice for code that recycles an object somebody still uses), otherwise New().
type Pool struct {
	New  func() any
	real realsync.Pool
}

func (p *Pool) Get() any {
	if !simrt.Active() {
		p.real.New = p.New
		return p.real.Get()
	}
	simrt.Yield(simrt.Site(1))
	if x, ok := simrt.PoolGet(p); ok {
		simrt.RaceAcquire(p)
		simrt.Probe("pool_object_recycled")
		return x
	}
	if p.New != nil {
		return p.New()
	}
	return nil
}

func (p *Pool) Put(x any) {
	if !simrt.Active() {
		p.real.Put(x)
		return
	}
	if x == nil {
		return
	}
	simrt.Yield(simrt.Site(1))
	simrt.RaceReleaseMerge(p)
	simrt.PoolPut(p, x)
}

func OnceFunc(f func()) func() {
	var once Once
	return func() { once.Do(f) }
}

func OnceValue[T any](f func() T) func() T {
	var (
		once Once
		v    T
	)
	return func() T { once.Do(func() { v = f() }); return v }
}

// ---------------------------------------------------------------------------------------------
// Mutex

type Mutex struct {
	real   realsync.Mutex
	locked bool
}

func (m *Mutex) Lock() {
	if !simrt.Active() {
		m.real.Lock()
		return
	}
	simrt.Yield(simrt.Site(1))
	for m.locked {
		simrt.Block("mutex", func() bool { return !m.locked })
	}
	m.locked = true
	simrt.RaceAcquire(m)
}

func (m *Mutex) TryLock() bool {
	if !simrt.Active() {
		return m.real.TryLock()
	}
	simrt.Yield(simrt.Site(1))
	if m.locked {
		simrt.SpinHint()
		return false
	}
	m.locked = true
	simrt.RaceAcquire(m)
	return true
}

func (m *Mutex) Unlock() {
	if !simrt.Active() {
		m.real.Unlock()
		return
	}
	simrt.Yield(simrt.Site(1))
	if !m.locked {
		panic("sync: unlock of unlocked mutex")
	}
	simrt.RaceRelease(m)
	m.locked = false
	// a second scheduling point right after the release: what the caller does next (typically
	// with data it read under the lock) can be overtaken by the next lock holder
	simrt.Yield("unlocked")
}

// ---------------------------------------------------------------------------------------------
// RWMutex (port of the real algorithm: w serialises writers; a writer announces itself, then waits
// for the readers that were active at that moment; readers arriving after the announcement queue
// until that writer unlocks and are all admitted by its Unlock)

type RWMutex struct {
	real       realsync.RWMutex
	w          Mutex
	readers    int  // active readers
	announced  bool // a writer holds w and has announced itself (readerCount < 0 in the real code)
	readerWait int  // readers the announced writer still has to wait for
	queued     int  // readers queued behind the announced writer
	gen        int  // incremented by every writer Unlock
}

func (rw *RWMutex) RLock() {
	if !simrt.Active() {
		rw.real.RLock()
		return
	}
	simrt.Yield(simrt.Site(1))
	if rw.announced {
		rw.queued++
		g := rw.gen
		simrt.Block("rwmutex.RLock", func() bool { return rw.gen != g })
		// admitted (and counted as active) by the writer's Unlock
	} else {
		rw.readers++
	}
	simrt.RaceAcquire(&rw.readers)
}

func (rw *RWMutex) TryRLock() bool {
	if !simrt.Active() {
		return rw.real.TryRLock()
	}
	simrt.Yield(simrt.Site(1))
	if rw.announced {
		simrt.SpinHint()
		return false
	}
	rw.readers++
	simrt.RaceAcquire(&rw.readers)
	return true
}

func (rw *RWMutex) RUnlock() {
	if !simrt.Active() {
		rw.real.RUnlock()
		return
	}
	simrt.Yield(simrt.Site(1))
	if rw.readers <= 0 {
		panic("sync: RUnlock of unlocked RWMutex")
	}
	simrt.RaceReleaseMerge(&rw.w)
	rw.readers--
	if rw.announced && rw.readerWait > 0 {
		rw.readerWait--
	}
	simrt.Yield("unlocked")
}

func (rw *RWMutex) Lock() {
	if !simrt.Active() {
		rw.real.Lock()
		return
	}
	site := simrt.Site(1)
	simrt.Yield(site)
	for rw.w.locked {
		simrt.Block("rwmutex.Lock(w)", func() bool { return !rw.w.locked })
	}
	rw.w.locked = true
	// announce
	rw.announced = true
	rw.readerWait = rw.readers
	if rw.readerWait != 0 {
		simrt.Block("rwmutex.Lock(readers)", func() bool { return rw.readerWait == 0 })
	}
	simrt.RaceAcquire(&rw.readers)
	simrt.RaceAcquire(&rw.w)
}

func (rw *RWMutex) TryLock() bool {
	if !simrt.Active() {
		return rw.real.TryLock()
	}
	simrt.Yield(simrt.Site(1))
	if rw.w.locked || rw.readers != 0 {
		simrt.SpinHint()
		return false
	}
	rw.w.locked = true
	rw.announced = true
	rw.readerWait = 0
	simrt.RaceAcquire(&rw.readers)
	simrt.RaceAcquire(&rw.w)
	return true
}

func (rw *RWMutex) Unlock() {
	if !simrt.Active() {
		rw.real.Unlock()
		return
	}
	simrt.Yield(simrt.Site(1))
	if !rw.announced {
		panic("sync: Unlock of unlocked RWMutex")
	}
	simrt.RaceRelease(&rw.readers)
	simrt.RaceRelease(&rw.w)
	rw.announced = false
	rw.readers += rw.queued // queued readers are admitted before any later writer
	rw.queued = 0
	rw.gen++
	rw.w.locked = false
	simrt.Yield("unlocked")
}

func (rw *RWMutex) RLocker() Locker { return (*rlocker)(rw) }

type rlocker RWMutex

func (r *rlocker) Lock()   { (*RWMutex)(r).RLock() }
func (r *rlocker) Unlock() { (*RWMutex)(r).RUnlock() }

// ---------------------------------------------------------------------------------------------
// Cond

type Cond struct {
	L       Locker
	real    *realsync.Cond
	realMu  realsync.Mutex
	waiters []*condWaiter
}

type condWaiter struct{ signalled bool }

func NewCond(l Locker) *Cond { return &Cond{L: l} }

func (c *Cond) passthrough() *realsync.Cond {
	c.realMu.Lock()
	defer c.realMu.Unlock()
	if c.real == nil {
		c.real = realsync.NewCond(condLocker{c})
	}
	return c.real
}

// condLocker lets the real Cond use whatever c.L currently is (callers may assign c.L late).
type condLocker struct{ c *Cond }

func (l condLocker) Lock()   { l.c.L.Lock() }
func (l condLocker) Unlock() { l.c.L.Unlock() }

func (c *Cond) Wait() {
	if !simrt.Active() {
		c.passthrough().Wait()
		return
	}
	// A scheduling point between the caller's predicate check and the registration of the waiter:
	// the real runtime can preempt exactly here, and a Broadcast issued without c.L lands in this
	// window unnoticed.
	simrt.Yield(simrt.Site(1))
	w := &condWaiter{}
	c.waiters = simrt.Push(c.waiters, w)
	c.L.Unlock()
	simrt.Block("cond.Wait", func() bool { return w.signalled })
	c.L.Lock()
}

func (c *Cond) Signal() {
	if !simrt.Active() {
		c.passthrough().Signal()
		return
	}
	simrt.Yield(simrt.Site(1))
	if len(c.waiters) > 0 {
		c.waiters[0].signalled = true
		c.waiters = c.waiters[1:]
	}
}

func (c *Cond) Broadcast() {
	if !simrt.Active() {
		c.passthrough().Broadcast()
		return
	}
	simrt.Yield(simrt.Site(1))
	for _, w := range c.waiters {
		w.signalled = true
	}
	c.waiters = nil
}

// ---------------------------------------------------------------------------------------------
// Once (the real source, on the shim Mutex; done is read without the lock exactly as the real one)

type Once struct {
	done bool
	m    Mutex
}

func (o *Once) Do(f func()) {
	if simrt.Active() {
		simrt.Yield(simrt.Site(1))
	}
	if !o.done {
		o.doSlow(f)
	} else {
		simrt.RaceAcquire(o)
	}
}

func (o *Once) doSlow(f func()) {
	o.m.Lock()
	defer o.m.Unlock()
	if !o.done {
		defer func() { simrt.RaceRelease(o); o.done = true }()
		f()
	}
}

// ---------------------------------------------------------------------------------------------
// WaitGroup

type WaitGroup struct {
	real realsync.WaitGroup
	n    int
	gen  int
	nw   int
}

func (wg *WaitGroup) Add(delta int) {
	if !simrt.Active() {
		wg.real.Add(delta)
		return
	}
	simrt.Yield(simrt.Site(1))
	wg.add(delta)
}

func (wg *WaitGroup) add(delta int) {
	if delta < 0 {
		simrt.RaceReleaseMerge(wg)
	}
	wg.n += delta
	if wg.n < 0 {
		panic("sync: negative WaitGroup counter")
	}
	if wg.n == 0 && wg.nw > 0 {
		wg.gen++
		wg.nw = 0
	}
}

func (wg *WaitGroup) Done() {
	if !simrt.Active() {
		wg.real.Done()
		return
	}
	simrt.Yield(simrt.Site(1))
	wg.add(-1)
}

func (wg *WaitGroup) Wait() {
	if !simrt.Active() {
		wg.real.Wait()
		return
	}
	simrt.Yield(simrt.Site(1))
	if wg.n != 0 {
		g := wg.gen
		wg.nw++
		simrt.Block("waitgroup.Wait", func() bool { return wg.gen != g })
	}
	simrt.RaceAcquire(wg)
}

func (wg *WaitGroup) Go(f func()) {
	wg.Add(1)
	simrt.Go(simrt.Site(1), false, func() {
		defer wg.Done()
		f()
	})
}
