// Package time replaces the standard time package by the simulator's discrete-event clock. Pure
// types and functions are aliases / passthroughs; Now, Sleep, timers and tickers read and schedule
// on simulated time. Without an active simulation everything delegates to the real package.
package time

import (
	"bbsim/simrt"
	real "time"
)

type (
	Duration   = real.Duration
	Time       = real.Time
	Month      = real.Month
	Weekday    = real.Weekday
	Location   = real.Location
	ParseError = real.ParseError
)

const (
	Nanosecond  = real.Nanosecond
	Microsecond = real.Microsecond
	Millisecond = real.Millisecond
	Second      = real.Second
	Minute      = real.Minute
	Hour        = real.Hour

	January   = real.January
	February  = real.February
	March     = real.March
	April     = real.April
	May       = real.May
	June      = real.June
	July      = real.July
	August    = real.August
	September = real.September
	October   = real.October
	November  = real.November
	December  = real.December

	Sunday    = real.Sunday
	Monday    = real.Monday
	Tuesday   = real.Tuesday
	Wednesday = real.Wednesday
	Thursday  = real.Thursday
	Friday    = real.Friday
	Saturday  = real.Saturday

	Layout      = real.Layout
	ANSIC       = real.ANSIC
	RFC822      = real.RFC822
	RFC1123     = real.RFC1123
	RFC3339     = real.RFC3339
	RFC3339Nano = real.RFC3339Nano
	Kitchen     = real.Kitchen
	Stamp       = real.Stamp
	StampMilli  = real.StampMilli
	StampMicro  = real.StampMicro
	StampNano   = real.StampNano
	DateTime    = real.DateTime
	DateOnly    = real.DateOnly
	TimeOnly    = real.TimeOnly
)

var (
	UTC   = real.UTC
	Local = real.Local
)

func Date(year int, month Month, day, hour, min, sec, nsec int, loc *Location) Time {
	return real.Date(year, month, day, hour, min, sec, nsec, loc)
}
func Unix(sec, nsec int64) Time                   { return real.Unix(sec, nsec) }
func UnixMilli(ms int64) Time                     { return real.UnixMilli(ms) }
func UnixMicro(us int64) Time                     { return real.UnixMicro(us) }
func Parse(layout, value string) (Time, error)    { return real.Parse(layout, value) }
func ParseDuration(s string) (Duration, error)    { return real.ParseDuration(s) }
func FixedZone(name string, offset int) *Location { return real.FixedZone(name, offset) }
func LoadLocation(name string) (*Location, error) { return real.LoadLocation(name) }

func Now() Time {
	if !simrt.Active() {
		return real.Now()
	}
	return simrt.Epoch.Add(simrt.Now())
}

func Since(t Time) Duration { return Now().Sub(t) }
func Until(t Time) Duration { return t.Sub(Now()) }

func Sleep(d Duration) {
	if !simrt.Active() {
		real.Sleep(d)
		return
	}
	simrt.Yield(simrt.Site(1))
	if d <= 0 {
		return
	}
	woke := false
	simrt.AddTimer(d, "sleep", func() { woke = true })
	simrt.Block("sleep", func() bool { return woke })
}

// Timer mirrors time.Timer with Go >= 1.23 channel semantics: after Stop or Reset returns, no value
// prepared before the call can be received.
type Timer struct {
	C    <-chan Time
	c    chan Time
	real *real.Timer
	h    simrt.TimerHandle
	f    func()
	live bool
}

func NewTimer(d Duration) *Timer {
	if !simrt.Active() {
		rt := real.NewTimer(d)
		return &Timer{C: rt.C, real: rt}
	}
	simrt.Yield(simrt.Site(1))
	t := &Timer{c: simrt.Reg(make(chan Time, 1))}
	t.C = t.c
	t.arm(d)
	return t
}

func (t *Timer) arm(d Duration) {
	t.live = true
	t.h = simrt.AddTimer(d, "timer", func() {
		t.live = false
		if t.f != nil {
			simrt.SpawnFromTimer("time.AfterFunc", true, t.f)
			return
		}
		select {
		case t.c <- simrt.Epoch.Add(simrt.Now()):
		default:
		}
	})
}

func AfterFunc(d Duration, f func()) *Timer {
	if !simrt.Active() {
		return &Timer{real: real.AfterFunc(d, f)}
	}
	simrt.Yield(simrt.Site(1))
	t := &Timer{f: f}
	t.arm(d)
	return t
}

func After(d Duration) <-chan Time { return NewTimer(d).C }

func (t *Timer) Stop() bool {
	if t.real != nil {
		return t.real.Stop()
	}
	simrt.Yield(simrt.Site(1))
	was := t.live
	if was {
		simrt.CancelTimer(t.h)
		t.live = false
	}
	if t.c != nil {
		select {
		case <-t.c:
		default:
		}
	}
	return was
}

func (t *Timer) Reset(d Duration) bool {
	if t.real != nil {
		return t.real.Reset(d)
	}
	was := t.Stop()
	t.arm(d)
	return was
}

type Ticker struct {
	C      <-chan Time
	c      chan Time
	real   *real.Ticker
	h      simrt.TimerHandle
	period Duration
	live   bool
}

func NewTicker(d Duration) *Ticker {
	if d <= 0 {
		panic("non-positive interval for NewTicker")
	}
	if !simrt.Active() {
		rt := real.NewTicker(d)
		return &Ticker{C: rt.C, real: rt}
	}
	simrt.Yield(simrt.Site(1))
	t := &Ticker{c: simrt.Reg(make(chan Time, 1)), period: d}
	t.C = t.c
	t.arm()
	return t
}

func (t *Ticker) arm() {
	t.live = true
	t.armAt(simrt.Now() + Duration(t.period))
}

// armAt schedules the tick that is due at the simulated time when. As in the runtime, the value sent is
// "when it was due + the delay between noticing the expiry and stamping the value" (zero unless the
// tick-lag fault is on), and the next tick is due one period after this one was due, skipping the periods
// that had already passed when the expiry was noticed.
func (t *Ticker) armAt(when Duration) {
	d := when - simrt.Now()
	if d < 0 {
		d = 0
	}
	t.h = simrt.AddTimer(Duration(d), "ticker", func() {
		noticed := simrt.Now()
		delta := noticed - when
		next := when + Duration(t.period)*(1+delta/Duration(t.period))
		if simrt.TickNoSkip() {
			next = when + Duration(t.period)
		}
		send := func() {
			select {
			case t.c <- simrt.Epoch.Add(Duration(simrt.Now() - delta)):
			default: // slow receiver: the tick is dropped
				simrt.Probe("ticker_tick_dropped")
			}
			if t.live {
				t.armAt(next)
			}
		}
		if lag := simrt.DrawTickLag(t.period); lag > 0 {
			t.h = simrt.AddTimer(lag, "ticker-lag", send)
			return
		}
		send()
	})
}

func (t *Ticker) Stop() {
	if t.real != nil {
		t.real.Stop()
		return
	}
	simrt.Yield(simrt.Site(1))
	if t.live {
		simrt.CancelTimer(t.h)
		t.live = false
	}
	select {
	case <-t.c:
	default:
	}
}

func (t *Ticker) Reset(d Duration) {
	if d <= 0 {
		panic("non-positive interval for Ticker.Reset")
	}
	if t.real != nil {
		t.real.Reset(d)
		return
	}
	t.Stop()
	t.period = d
	t.arm()
}

func Tick(d Duration) <-chan Time {
	if d <= 0 {
		return nil
	}
	return NewTicker(d).C
}
