// Package simrt is the deterministic simulation runtime: a seeded cooperative scheduler for real
// goroutines ("tasks") running inside one testing/synctest bubble, a discrete-event clock, choice
// streams, a trace hash, probes and the failure record.
//
// Exactly one task holds the baton at any time. Tasks give it up at scheduling points (Yield), when
// they block on a simulated primitive (Block) and when they block for real in a channel operation
// (detected by synctest.Wait: the released task is durably blocked but did not park on its gate).
//
// Everything in this package runs either under the baton or under s.mu, so it is written without
// further locking. All exported entry points are no-ops / passthrough when no simulation is active.
package simrt

import (
	"fmt"
	"runtime"
	"sort"
	"strings"
	"sync"
	"sync/atomic"
	"testing/synctest"
	"time"
)

type State uint8

const (
	Ready State = iota
	Running
	SimBlocked
	RealBlocked
	Done
)

func (s State) String() string {
	return [...]string{"ready", "running", "sim-blocked", "real-blocked", "done"}[s]
}

// Task is one goroutine under the simulator's control.
type Task struct {
	ID      int
	Name    string // go-site that spawned it
	Lib     bool   // spawned by instrumented library code (as opposed to the harness)
	Parent  int
	gate    chan struct{}
	state   State
	enabled func() bool // for SimBlocked
	on      string      // what it is blocked on / last site
	site    string
	prio    int
	stallTo int  // not scheduled before this step unless nothing else can run
	quiesce bool // SimBlocked in Quiesce: only enabled when nothing else can run
	qlimit  time.Duration
	spin    bool // asked to be deprioritised for the next decision
	Panic   any
	Stack   string
}

// TaskInfo is a snapshot for harness oracles.
type TaskInfo struct {
	ID    int
	Name  string
	Lib   bool
	State State
	On    string
}

type Failure struct {
	Check string `json:"check"`
	Msg   string `json:"msg"`
	Step  int    `json:"step"`
}

// Config selects the strategy and bounds of one run.
type Config struct {
	Strategy   int     // 0 uniform, 1 run-long, 2 PCT
	StayProb   float64 // run-long: probability to stay on the current task
	TimerProb  float64 // probability to fire the earliest timer although tasks can run
	PCTDepth   int     // number of priority change points
	PCTLen     int     // change points are drawn in [0,PCTLen)
	FairAfter  int     // switch to uniform after this many steps
	MaxSteps   int
	KeepEvents int  // number of trace events kept for replay files / samples
	Big        bool // deeper bounds for this run (thorough tier: half of the runs)
}

type Event struct {
	Step int    `json:"step"`
	Task int    `json:"task"`
	Kind string `json:"kind"`
	Site string `json:"site"`
}

// Sim is one simulated execution.
type Sim struct {
	tickLag      bool        // ticker values suffer drawn delays (SetTickLag)
	pools        []poolState // contents of the simulated sync.Pools, per run
	tickNoSkip   bool        // late tickers do not skip missed periods (SetTickNoSkip)
	mu           sync.Mutex
	cfg          Config
	tasks        []*Task
	cur          *Task
	dirty        bool
	forced       *Task // decision already taken inline by the yielding task
	forcedT      bool  // forced decision is "fire timer"
	steps        int
	Prog         *Stream
	Sched        *Stream
	clock        clock
	hash         uint64
	events       []Event
	fail         *Failure
	probes       counters
	faults       counters
	stamp        int64
	lastStamp    int // step count at the latest Stamp
	regSeq       int
	reg          u64Table
	regKeep      []any
	anoms        counters
	pctAt        []int
	logs         []string
	aborted      string // "budget", "deadlock", ""
	switches     int
	switchPairs  u64Table
	sites        interner
	lastRun      *Task
	fairMode     bool
	maxTasksLive int
	data         any
	demoted      int
	spins        int // number of SpinHint calls (failed try-locks, Gosched) so far
	optBuf       []*Task
	stepHooks    []func()
	inHook       int
	timerLog     []TimerReq
	randLog      []RandReq
}

// S is the active simulation (nil = passthrough mode).
var S *Sim

func Active() bool { return S != nil }

type Result struct {
	Fail        *Failure
	Steps       int
	Hash        uint64
	SimTime     time.Duration
	Probes      map[string]int
	Faults      map[string]int
	Anomalies   map[string]int
	Events      []Event
	Logs        []string
	Aborted     string
	Tasks       int
	Switches    int
	SwitchPairs map[string]int
	Leftover    []TaskInfo
	ProgLen     int
	SchedLen    int
	TimersFired int
	Data        any
	TimerLog    []TimerReq
}

// Run executes main as task 0 under a fresh simulation and drives the scheduler until every task is
// done, a failure is recorded, the step budget is exhausted, or nothing can run any more.
// It must be called from inside a synctest bubble, from the bubble's root goroutine.
func Run(cfg Config, prog, sched *Stream, main func()) *Result {
	if cfg.MaxSteps == 0 {
		cfg.MaxSteps = 200000
	}
	if cfg.FairAfter == 0 {
		cfg.FairAfter = 20000
	}
	s := &Sim{
		cfg:   cfg,
		Prog:  prog,
		Sched: sched,
		hash:  1469598103934665603,
	}
	if cfg.Strategy == 2 {
		n := cfg.PCTLen
		if n <= 0 {
			n = 1000
		}
		for i := 0; i < cfg.PCTDepth; i++ {
			s.pctAt = push(s.pctAt, sched.aux(n))
		}
		sort.Ints(s.pctAt)
	}
	S = s
	defer func() { S = nil }()
	s.spawn("main", false, main)
	s.loop()
	res := &Result{
		Fail: s.fail, Steps: s.steps, Hash: s.hash, SimTime: s.clock.now, Probes: s.probes.toMap(), Faults: s.faults.toMap(),
		Anomalies: s.anoms.toMap(), Events: s.events, Logs: s.logs, Aborted: s.aborted, Tasks: len(s.tasks),
		Switches: s.switches, SwitchPairs: s.pairMap(), ProgLen: len(prog.Vals), SchedLen: len(sched.Vals),
		TimersFired: s.clock.fired, Data: s.data, TimerLog: s.timerLog,
	}
	for _, t := range s.tasks {
		if t.state != Done {
			res.Leftover = append(res.Leftover, TaskInfo{t.ID, t.Name, t.Lib, t.state, t.on})
		}
	}
	return res
}

// lock/unlock guard the few fields touched by tasks that are not the baton holder (a task woken out
// of a real channel operation, a task finishing). The race detector must not see them as
// synchronisation of the program under test.
func (s *Sim) lock() {
	raceDisable()
	s.mu.Lock()
}

func (s *Sim) unlock() {
	s.mu.Unlock()
	raceEnable()
}

func (s *Sim) pairMap() map[string]int {
	m := map[string]int{}
	s.switchPairs.each(func(k uint64, v int) {
		m[s.sites.names[k>>32]+" -> "+s.sites.names[k&0xffffffff]] = v
	})
	return m
}

func (s *Sim) mix(x uint64) {
	s.hash ^= x
	s.hash *= 1099511628211
}

func (s *Sim) mixs(str string) {
	for i := 0; i < len(str); i++ {
		s.hash ^= uint64(str[i])
		s.hash *= 1099511628211
	}
}

func (s *Sim) event(t *Task, kind, site string) {
	id := -1
	if t != nil {
		id = t.ID
	}
	s.mix(uint64(s.steps))
	s.mix(uint64(id + 2))
	s.mixs(kind)
	s.mixs(site)
	if len(s.events) < s.cfg.KeepEvents {
		s.events = push(s.events, Event{s.steps, id, kind, site})
	}
}

func (s *Sim) spawn(name string, lib bool, fn func()) *Task {
	t := &Task{ID: len(s.tasks), Name: name, Lib: lib, gate: make(chan struct{}, 1), state: Ready, on: "start"}
	if s.cur != nil {
		t.Parent = s.cur.ID
	} else {
		t.Parent = -1
	}
	if s.cfg.Strategy == 2 {
		t.prio = 1000 + s.Sched.aux(1000)
	}
	s.tasks = push(s.tasks, t)
	s.event(t, "spawn", name)
	go s.taskMain(t, fn)
	return t
}

func (s *Sim) taskMain(t *Task, fn func()) {
	raceDisable()
	<-t.gate
	raceEnable()
	defer func() {
		if r := recover(); r != nil {
			if _, ok := r.(abortRun); !ok {
				buf := make([]byte, 16384)
				buf = buf[:runtime.Stack(buf, false)]
				t.Panic = r
				t.Stack = string(buf)
				if s.fail == nil {
					s.fail = &Failure{Check: "panic", Msg: fmt.Sprintf("task %d (%s) panicked: %v\n%s", t.ID, t.Name, r, trimStack(t.Stack)), Step: s.steps}
				}
			}
		}
		s.lock()
		t.state = Done
		t.on = "done"
		s.unlock()
	}()
	fn()
}

// progress counts scheduling steps of all runs of this process; read by the worker's hang watchdog.
var progress atomic.Uint64

// Progress returns a counter that moves whenever a simulated run takes a scheduling step.
func Progress() uint64 { return progress.Load() }

type abortRun struct{}

// maxTasks bounds the goroutines of one run (see Go).
const maxTasks = 4000

func trimStack(st string) string {
	lines := strings.Split(st, "\n")
	var out []string
	for i := 0; i+1 < len(lines); i++ {
		l := lines[i]
		if strings.HasPrefix(l, "\t") {
			continue
		}
		if strings.Contains(l, "simrt.") || strings.HasPrefix(l, "runtime.") || strings.HasPrefix(l, "panic(") || strings.HasPrefix(l, "goroutine ") {
			continue
		}
		loc := strings.TrimSpace(lines[i+1])
		if k := strings.LastIndex(loc, "/"); k >= 0 {
			loc = loc[k+1:]
		}
		if k := strings.Index(loc, " +0x"); k >= 0 {
			loc = loc[:k]
		}
		fnn := l
		if k := strings.LastIndex(fnn, "/"); k >= 0 {
			fnn = fnn[k+1:]
		}
		if k := strings.Index(fnn, "("); k > 0 && !strings.Contains(fnn[:k], ".") {
			fnn = fnn[:k]
		}
		out = append(out, fnn+" @"+loc)
		if len(out) >= 12 {
			break
		}
	}
	return strings.Join(out, "\n")
}

// loop is the scheduler. It runs on the bubble's root goroutine. After synctest.Wait returns every
// other goroutine of the bubble is durably blocked, so the scheduler works on the simulation state
// without locking (and outside RaceDisable regions, so that goroutines it starts from timer events
// carry an ordinary creation edge).
func (s *Sim) loop() {
	for {
		raceDisable()
		synctest.Wait()
		raceEnable()
		if c := s.cur; c != nil && c.state == Running {
			// released, durably blocked, and not parked on its gate: blocked in a real channel operation
			c.state = RealBlocked
			c.on = c.site
		}
		s.cur = nil
		s.dirty = false
		if s.fail != nil {
			return
		}
		if s.overBudget() {
			s.aborted = "budget"
			return
		}
		var next *Task
		fire := false
		if s.forced != nil || s.forcedT {
			next, fire = s.forced, s.forcedT
			s.forced, s.forcedT = nil, false
		} else {
			next, fire = s.decide(nil)
		}
		if fire {
			s.steps++
			progress.Add(1)
			s.clock.fireNext(s)
			continue
		}
		if next == nil {
			alive := false
			for _, t := range s.tasks {
				if t.state != Done {
					alive = true
				}
			}
			if alive {
				s.aborted = "deadlock"
			}
			return
		}
		s.dispatch(next)
		raceDisable()
		next.gate <- struct{}{}
		raceEnable()
	}
}

func (s *Sim) dispatch(next *Task) {
	s.steps++
	progress.Add(1)
	if s.lastRun != nil && s.lastRun != next {
		s.switches++
		if s.switchPairs.n < 4096 {
			*s.switchPairs.ref(uint64(s.sites.id(s.lastRun.site))<<32 | uint64(s.sites.id(next.site)))++
		}
	}
	s.lastRun = next
	s.event(next, "run", next.site)
	next.state = Running
	next.enabled = nil
	next.quiesce = false
	next.spin = false
	s.cur = next
	s.runHooks()
}

func (s *Sim) runHooks() {
	if len(s.stepHooks) == 0 {
		return
	}
	s.inHook++
	for _, h := range s.stepHooks {
		h()
	}
	s.inHook--
}

// OnStep registers fn to run (on whichever goroutine takes the scheduling decision, under the
// baton) after every scheduling step. Inside fn every scheduling point is a no-op, so it may use
// non-blocking channel polls and plain memory; it must not block.
func OnStep(fn func()) {
	if s := S; s != nil {
		s.stepHooks = push(s.stepHooks, fn)
	}
}

// SetData hands a value (typically the recorded history) to the harness's post-run oracle, which
// runs outside the simulation.
func SetData(v any) {
	if s := S; s != nil {
		s.data = v
	}
}

// TimerReq is one timer request as seen by the clock.
type TimerReq struct {
	Task int
	D    time.Duration
	Desc string
	At   time.Duration
}

// RandReq is one draw requested from the math/rand shim: the caller asked for a value in [0,N).
type RandReq struct {
	Task  int
	N     int64
	Value int64 // what the shim returned
}

// NoteRand is called by the math/rand shim for every draw.
func NoteRand(n, value int64) {
	if s := S; s != nil && len(s.randLog) < 4000 {
		s.randLog = push(s.randLog, RandReq{Task: CurrentID(), N: n, Value: value})
	}
}

// RandLog returns every draw requested from the math/rand shim so far (bounded).
func RandLog() []RandReq { return S.randLog }

// TimerLog returns every timer request made so far (bounded).
func TimerLog() []TimerReq { return S.timerLog }

func (s *Sim) isEnabled(t *Task) bool {
	switch t.state {
	case Ready:
		return t.stallTo <= s.steps
	case SimBlocked:
		return !t.quiesce && t.enabled != nil && t.enabled()
	}
	return false
}

// decide picks the next action. self is the currently running task when called inline from Yield
// (it is then a candidate), nil when called from the scheduler loop.
// Choice encoding: option 0 is "stay on self if possible, else the lowest task id"; then the other
// enabled tasks by id; the last option is "fire the earliest timer" when one is pending.
func (s *Sim) decide(self *Task) (*Task, bool) {
	opts := s.optBuf[:0]
	if self != nil && !self.spin {
		opts = push(opts, self)
	}
	for _, t := range s.tasks {
		if t != self && s.isEnabled(t) {
			opts = push(opts, t)
		}
	}
	if self != nil && self.spin && len(opts) == 0 {
		opts = push(opts, self)
	}
	s.optBuf = opts
	timer := s.clock.pending()
	if len(opts) == 0 {
		// nothing can run at this instant: stalled tasks first, then quiescence waiters whose limit
		// does not allow the next timer, then the timer, then unconditional quiescence waiters.
		var st *Task
		for _, t := range s.tasks {
			if t.state == Ready && t.stallTo > s.steps && (st == nil || t.stallTo < st.stallTo) {
				st = t
			}
		}
		if st != nil {
			st.stallTo = 0
			return st, false
		}
		var q *Task
		for _, t := range s.tasks {
			if t.state == SimBlocked && t.quiesce {
				q = t
				break
			}
		}
		if timer {
			if q != nil && s.clock.nextAt() > q.qlimit {
				return q, false
			}
			return nil, true
		}
		return q, false
	}
	n := len(opts)
	if timer {
		n++
	}
	if n == 1 {
		return opts[0], false
	}
	k := s.Sched.choose(n, func() int { return s.strategyPick(self, opts, timer) })
	if k >= len(opts) {
		return nil, true
	}
	return opts[k], false
}

// strategyPick generates a fresh choice (only used when the schedule stream has no recorded value).
func (s *Sim) strategyPick(self *Task, opts []*Task, timer bool) int {
	r := s.Sched.rng
	if timer && r.Float64() < s.cfg.TimerProb {
		return len(opts)
	}
	strat := s.cfg.Strategy
	if s.steps >= s.cfg.FairAfter {
		strat = 0
		s.fairMode = true
	}
	switch strat {
	case 1:
		if r.Float64() < s.cfg.StayProb {
			return 0
		}
		return r.Intn(len(opts))
	case 2:
		for len(s.pctAt) > 0 && s.pctAt[0] <= s.steps {
			s.pctAt = s.pctAt[1:]
			// demote the currently highest-priority enabled task
			best := opts[0]
			for _, t := range opts {
				if t.prio > best.prio {
					best = t
				}
			}
			best.prio = len(s.pctAt) // lower than every initial priority
		}
		bi := 0
		for i, t := range opts {
			if t.prio > opts[bi].prio {
				bi = i
			}
		}
		return bi
	}
	return r.Intn(len(opts))
}

func (s *Sim) park(t *Task) {
	raceDisable()
	<-t.gate
	raceEnable()
	if s.fail != nil && s.fail.Check == "abort" {
		panic(abortRun{})
	}
}

// Yield is a scheduling point. It returns the calling task (token for Resume).
func Yield(site string) *Task {
	s := S
	if s == nil {
		return nil
	}
	return s.yield(site, false)
}

// YieldChan is a scheduling point immediately before a (possibly blocking, possibly waking) real
// channel operation.
func YieldChan(site string) *Task {
	s := S
	if s == nil {
		return nil
	}
	return s.yield(site, true)
}

func (s *Sim) yield(site string, ch bool) *Task {
	if s.inHook > 0 {
		return s.cur
	}
	t := s.cur
	if t == nil {
		panic("simrt: Yield outside a task at " + site)
	}
	t.site = site
	if !s.dirty && s.fail == nil && !s.overBudget() {
		next, fire := s.decide(t)
		if next == t && !fire {
			s.steps++
			progress.Add(1)
			s.event(t, "cont", site)
			t.spin = false
			s.runHooks()
			if ch {
				s.dirty = true
			}
			return t
		}
		s.forced, s.forcedT = next, fire
	}
	s.lock()
	t.state = Ready
	t.on = site
	s.unlock()
	s.park(t)
	if ch {
		s.dirty = true
	}
	return t
}

// Resume is called right after a real channel operation completed. If the operation had blocked
// (the scheduler saw the task durably blocked and moved on), the task parks until it is scheduled
// again; otherwise it keeps the baton.
func Resume(t *Task) {
	s := S
	if s == nil || t == nil || s.inHook > 0 {
		return
	}
	s.lock()
	blocked := t.state == RealBlocked
	if blocked {
		t.state = Ready
	}
	s.unlock()
	if blocked {
		s.park(t)
	}
}

// Block parks the current task until enabled() holds (evaluated by the scheduler under the baton).
func Block(on string, enabled func() bool) {
	s := S
	t := s.cur
	s.lock()
	t.state = SimBlocked
	t.enabled = enabled
	t.on = on
	s.unlock()
	s.park(t)
}

// SpinHint tells the scheduler that the current task just failed a non-blocking attempt and will
// retry: at its next scheduling point every other enabled task is preferred (the failed attempt
// changed no state, so skipping its immediate repetition loses no behaviour).
func SpinHint() {
	if s := S; s != nil && s.cur != nil {
		s.cur.spin = true
		s.spins++
		if s.cfg.Strategy == 2 {
			// PCT: a spinner must not keep outranking the task it is waiting for (two high-priority
			// spinners would otherwise alternate until the fair walk starts)
			s.demoted--
			s.cur.prio = s.demoted
		}
	}
}

// Spins returns how many failed non-blocking attempts (TryLock/TryRLock failures, Gosched calls) have
// been made so far in this run (reach probes only).
func Spins() int {
	if s := S; s != nil {
		return s.spins
	}
	return 0
}

// Go starts fn as a new task. lib marks goroutines started by instrumented library code.
func Go(site string, lib bool, fn func()) {
	s := S
	if s == nil {
		go fn()
		return
	}
	s.spawn(site, lib, fn)
	if len(s.tasks) > maxTasks {
		// a run of these harnesses needs a few dozen goroutines: thousands mean a spawn loop that runs
		// away (bounded liveness: whatever it is working towards is not going to happen in this run)
		if s.fail == nil {
			s.fail = &Failure{Check: "task-explosion", Msg: fmt.Sprintf("%d goroutines have been started in this run, the last ones at %s: a spawn loop is running away", len(s.tasks), site), Step: s.steps}
		}
		panic(abortRun{})
	}
	live := 0
	for _, t := range s.tasks {
		if t.state != Done {
			live++
		}
	}
	if live > s.maxTasksLive {
		s.maxTasksLive = live
	}
}

// Quiesce blocks the calling (harness) task until no other task can run. Timers due within limit of
// simulated time from now are allowed to fire first; limit < 0 means all pending timers.
func Quiesce(limit time.Duration) {
	s := S
	t := s.cur
	s.lock()
	t.state = SimBlocked
	t.quiesce = true
	if limit < 0 {
		t.qlimit = 1<<63 - 1
	} else {
		t.qlimit = s.clock.now + limit
	}
	t.on = "quiesce"
	s.unlock()
	s.park(t)
}

// Stall keeps the calling task off the CPU for the next n scheduling steps (or until nothing else
// can run).
func Stall(n int) {
	s := S
	if s == nil || n <= 0 {
		return
	}
	t := s.cur
	s.faults.add("stall", 1)
	s.lock()
	t.state = Ready
	t.stallTo = s.steps + n
	t.on = "stall"
	s.unlock()
	s.park(t)
}

// Tasks returns a snapshot of all tasks.
func Tasks() []TaskInfo {
	s := S
	var out []TaskInfo
	for _, t := range s.tasks {
		out = push(out, TaskInfo{t.ID, t.Name, t.Lib, t.state, t.on})
	}
	return out
}

// CurrentID returns the id of the running task.
func CurrentID() int {
	if s := S; s != nil && s.cur != nil {
		return s.cur.ID
	}
	return -1
}

// Stamp returns the next value of the global event counter.
func Stamp() int64 {
	s := S
	s.stamp++
	s.lastStamp = s.steps
	return s.stamp
}

// overBudget: the step budget is spent. A run in which the harness still records events (stamps: the
// invocations and returns of its operations) is long, not stuck: while the last stamp is less than a
// quarter of the budget old the budget extends, up to ten times.
func (s *Sim) overBudget() bool {
	if s.steps < s.cfg.MaxSteps {
		return false
	}
	return s.steps >= 10*s.cfg.MaxSteps || s.steps-s.lastStamp >= s.cfg.MaxSteps/4
}

// Scale is 2 in runs with deeper bounds (thorough tier, half of the runs) and 1 otherwise; harnesses
// multiply their size bounds by it.
func Scale() int {
	if s := S; s != nil && s.cfg.Big {
		return 2
	}
	return 1
}

// Steps returns the number of scheduling steps so far.
func Steps() int { return S.steps }

// Failf records a violation (the first one wins) and stops the run at the next scheduling point.
func Failf(check, format string, args ...any) {
	s := S
	if s.fail == nil {
		s.fail = &Failure{Check: check, Msg: fmt.Sprintf(format, args...), Step: s.steps}
	}
}

func Failed() bool { return S.fail != nil }

func Probe(name string) {
	if s := S; s != nil {
		s.probes.add(name, 1)
	}
}

func Fault(name string) {
	if s := S; s != nil {
		s.faults.add(name, 1)
	}
}

func Anomaly(name string) {
	if s := S; s != nil {
		s.anoms.add(name, 1)
	}
}

func Logf(format string, args ...any) {
	if s := S; s != nil && len(s.logs) < 400 {
		s.logs = push(s.logs, fmt.Sprintf("[%d t%d] ", s.steps, CurrentID())+fmt.Sprintf(format, args...))
	}
}

// Draw returns a program-stream choice in [0,n).
func Draw(n int) int {
	if n <= 1 {
		return 0
	}
	return S.Prog.choose(n, nil)
}

// DrawRange returns a program-stream choice in [lo,hi].
func DrawRange(lo, hi int) int { return lo + Draw(hi-lo+1) }

// Chance returns true with probability num/den (program stream).
func Chance(num, den int) bool { return Draw(den) < num }

// SelectStart returns the rotation offset for polling the n cases of a select (schedule stream).
func SelectStart(n int) int {
	s := S
	if s == nil || n <= 1 {
		return 0
	}
	return s.Sched.choose(n, nil)
}

// SchedDraw returns a schedule-stream choice in [0,n) (used by the math/rand shim and map order).
func SchedDraw(n int) int {
	s := S
	if s == nil || n <= 1 {
		return 0
	}
	return s.Sched.choose(n, nil)
}

// siteCache is only touched under the baton.
var (
	siteCache u64Table
	siteNames []string
)

// Site returns a stable description of the caller's caller (used by shims that have no site string).
func Site(skip int) string {
	s := S
	var pcs [1]uintptr
	if runtime.Callers(skip+2, pcs[:]) == 0 {
		return "?"
	}
	pc := pcs[0]
	if s != nil {
		if i, ok := siteCache.get(uint64(pc)); ok {
			return siteNames[i]
		}
	}
	fr, _ := runtime.CallersFrames(pcs[:]).Next()
	fn := fr.Function
	if k := strings.LastIndex(fn, "/"); k >= 0 {
		fn = fn[k+1:]
	}
	v := fmt.Sprintf("%s:%d", fn, fr.Line)
	if s != nil {
		siteNames = push(siteNames, v)
		siteCache.put(uint64(pc), len(siteNames)-1)
	}
	return v
}

type poolState struct {
	key   any
	items []any
}

// PoolGet pops the most recently put object of the pool identified by key (this run only).
func PoolGet(key any) (any, bool) {
	s := S
	for i := range s.pools {
		if s.pools[i].key == key {
			it := s.pools[i].items
			if n := len(it); n > 0 {
				x := it[n-1]
				it[n-1] = nil
				s.pools[i].items = it[:n-1]
				return x, true
			}
			return nil, false
		}
	}
	return nil, false
}

// PoolPut pushes x on the pool identified by key.
func PoolPut(key any, x any) {
	s := S
	for i := range s.pools {
		if s.pools[i].key == key {
			s.pools[i].items = push(s.pools[i].items, x)
			return
		}
	}
	s.pools = push(s.pools, poolState{key: key, items: push([]any(nil), x)})
}
