package simrt

import "reflect"

// Recv is the expression-level form of an instrumented receive (used where the receive is not a
// statement of its own).
func Recv[T any](site string, ch <-chan T) T {
	t := YieldChan(site)
	v := <-ch
	Resume(t)
	return v
}

// ReflectSelect replaces reflect.Select: cases are polled in a seeded rotation; if none is ready the
// task blocks in the real reflect.Select.
func ReflectSelect(site string, cases []reflect.SelectCase) (int, reflect.Value, bool) {
	if S == nil {
		return reflect.Select(cases)
	}
	t := YieldChan(site)
	n := len(cases)
	hasDefault := false
	for _, c := range cases {
		if c.Dir == reflect.SelectDefault {
			hasDefault = true
		}
	}
	start := SelectStart(n)
	def := reflect.SelectCase{Dir: reflect.SelectDefault}
	for i := 0; i < n; i++ {
		k := (start + i) % n
		if cases[k].Dir == reflect.SelectDefault {
			continue
		}
		if idx, v, ok := reflect.Select([]reflect.SelectCase{cases[k], def}); idx == 0 {
			Resume(t)
			return k, v, ok
		}
	}
	if hasDefault {
		for k, c := range cases {
			if c.Dir == reflect.SelectDefault {
				return k, reflect.Value{}, false
			}
		}
	}
	i, v, ok := reflect.Select(cases)
	Resume(t)
	return i, v, ok
}

// Recv2 is Recv with the comma-ok result.
func Recv2[T any](site string, ch <-chan T) (T, bool) {
	t := YieldChan(site)
	v, ok := <-ch
	Resume(t)
	return v, ok
}

// Close is the instrumented close(ch): a scheduling point, then the real close (which may wake
// blocked tasks; they park again in their Resume).
func Close[T any](site string, ch chan<- T) {
	YieldChan(site)
	close(ch)
}

// Gosched replaces runtime.Gosched.
func Gosched(site string) {
	if S == nil {
		return
	}
	SpinHint()
	Yield(site)
}

func ReflectTryRecv(site string, v reflect.Value) (reflect.Value, bool) {
	YieldChan(site)
	return v.TryRecv()
}

func ReflectTrySend(site string, v, x reflect.Value) bool {
	YieldChan(site)
	return v.TrySend(x)
}

func ReflectRecv(site string, v reflect.Value) (reflect.Value, bool) {
	t := YieldChan(site)
	x, ok := v.Recv()
	Resume(t)
	return x, ok
}

func ReflectSend(site string, v, x reflect.Value) {
	t := YieldChan(site)
	v.Send(x)
	Resume(t)
}

func ReflectClose(site string, v reflect.Value) {
	YieldChan(site)
	v.Close()
}
