package simrt

import (
	"container/heap"
	"time"
)

// Epoch is the wall-clock reading of simulated time zero.
var Epoch = time.Date(2026, 1, 1, 0, 0, 0, 0, time.UTC)

type timerEv struct {
	at   time.Duration
	seq  uint64
	fire func()
	idx  int
	desc string
}

type timerHeap []*timerEv

func (h timerHeap) Len() int { return len(h) }
func (h timerHeap) Less(i, j int) bool {
	if h[i].at != h[j].at {
		return h[i].at < h[j].at
	}
	return h[i].seq < h[j].seq
}
func (h timerHeap) Swap(i, j int)       { h[i], h[j] = h[j], h[i]; h[i].idx = i; h[j].idx = j }
func (h *timerHeap) Push(x interface{}) { e := x.(*timerEv); e.idx = len(*h); *h = push(*h, e) }
func (h *timerHeap) Pop() interface{} {
	old := *h
	n := len(old)
	e := old[n-1]
	*h = old[:n-1]
	e.idx = -1
	return e
}

type clock struct {
	now   time.Duration
	seq   uint64
	q     timerHeap
	fired int
	same  []*timerEv
}

func (c *clock) pending() bool         { return len(c.q) > 0 }
func (c *clock) nextAt() time.Duration { return c.q[0].at }

func (c *clock) fireNext(s *Sim) {
	// timers due at the same simulated instant may fire in any order: a seeded choice
	at := c.q[0].at
	same := c.same[:0]
	for _, e := range c.q {
		if e.at == at {
			same = push(same, e)
		}
	}
	c.same = same
	var e *timerEv
	if len(same) > 1 {
		for i := 1; i < len(same); i++ { // insertion sort by seq: canonical order for the choice
			for j := i; j > 0 && same[j].seq < same[j-1].seq; j-- {
				same[j], same[j-1] = same[j-1], same[j]
			}
		}
		e = same[s.Sched.choose(len(same), nil)]
		heap.Remove(&c.q, e.idx)
	} else {
		e = heap.Pop(&c.q).(*timerEv)
	}
	if e.at > c.now {
		c.now = e.at
	}
	c.fired++
	s.event(nil, "timer", e.desc)
	s.mix(uint64(c.now))
	e.fire()
}

// TimerHandle identifies a pending simulated timer event.
type TimerHandle struct{ e *timerEv }

// AddTimer schedules fire to run on the scheduler (under the baton, no task running) after d of
// simulated time. fire must not block; it may do non-blocking channel sends, make blocked tasks
// runnable, or spawn tasks.
func AddTimer(d time.Duration, desc string, fire func()) TimerHandle {
	s := S
	if d < 0 {
		d = 0
	}
	s.clock.seq++
	if len(s.timerLog) < 2000 {
		s.timerLog = push(s.timerLog, TimerReq{Task: CurrentID(), D: d, Desc: desc, At: s.clock.now})
	}
	at := s.clock.now + d
	if at < s.clock.now {
		at = 1<<63 - 1 // saturate, as the runtime does: a wait of ~292 years must not wrap into the past
	}
	e := &timerEv{at: at, seq: s.clock.seq, fire: fire, desc: desc}
	heap.Push(&s.clock.q, e)
	return TimerHandle{e}
}

// CancelTimer removes a pending event; it reports whether the event was still pending.
func CancelTimer(h TimerHandle) bool {
	s := S
	if h.e == nil || h.e.idx < 0 {
		return false
	}
	heap.Remove(&s.clock.q, h.e.idx)
	return true
}

// Now returns simulated time since the epoch.
func Now() time.Duration {
	if s := S; s != nil {
		return s.clock.now
	}
	return 0
}

// SpawnFromTimer starts a task from a timer callback (time.AfterFunc).
func SpawnFromTimer(name string, lib bool, fn func()) { S.spawn(name, lib, fn) }

// Tick lag (a clock fault): a real time.Ticker value is "the time the tick was due, plus whatever delay
// the runtime suffered between noticing the expiry and stamping the value". A thread that is descheduled
// in that window (a slow or stalled node) produces a value that is later than the next tick's, which is
// stamped without the delay: consecutive values can go backwards. A harness opts in per run.
func SetTickLag(on bool) {
	if S != nil {
		S.tickLag = on
	}
}

// SetTickNoSkip makes a late ticker deliver one (stale) tick per missed period instead of skipping the
// missed periods: runs of several consecutive values that are earlier than a delayed one (on a real
// machine they come from several processors handling the same ticker with stale clock readings).
func SetTickNoSkip(on bool) {
	if S != nil {
		S.tickNoSkip = on
	}
}

// TickNoSkip reports whether SetTickNoSkip is on.
func TickNoSkip() bool { return S != nil && S.tickNoSkip }

// DrawTickLag returns the delay (0 most of the time) the current tick of a ticker with the given period
// suffers; drawn from the schedule stream.
func DrawTickLag(period time.Duration) time.Duration {
	s := S
	if s == nil || !s.tickLag {
		return 0
	}
	if SchedDraw(3) != 0 {
		return 0
	}
	s.faults.add("ticker_value_lag", 1)
	return period * time.Duration([]int{1, 3, 5, 8}[SchedDraw(4)]) / 2
}
