package simrt

// Hand-rolled containers for simulator state. Go maps, append (growslice) and copy are checked by
// the race detector inside the runtime whatever the compile flags of this package are, and the
// simulator's state is touched by many goroutines whose hand-offs are deliberately hidden from the
// detector; so simulator state lives in plain slices managed by code in this (uninstrumented)
// package.

func push[T any](s []T, v T) []T {
	if len(s) == cap(s) {
		n := make([]T, len(s), 2*cap(s)+16)
		for i := range s {
			n[i] = s[i]
		}
		s = n
	}
	s = s[:len(s)+1]
	s[len(s)-1] = v
	return s
}

// Push is push for the shim packages.
func Push[T any](s []T, v T) []T { return push(s, v) }

// u64Table is an open-addressing hash table from uint64 to int.
type u64Table struct {
	keys []uint64
	vals []int
	used []bool
	n    int
}

func (t *u64Table) slot(k uint64) int {
	h := k * 0x9E3779B97F4A7C15
	h ^= h >> 29
	return int(h & uint64(len(t.keys)-1))
}

func (t *u64Table) get(k uint64) (int, bool) {
	if t.n == 0 {
		return 0, false
	}
	for i := t.slot(k); ; i = (i + 1) & (len(t.keys) - 1) {
		if !t.used[i] {
			return 0, false
		}
		if t.keys[i] == k {
			return t.vals[i], true
		}
	}
}

func (t *u64Table) ref(k uint64) *int {
	if 2*(t.n+1) > len(t.keys) {
		t.grow()
	}
	for i := t.slot(k); ; i = (i + 1) & (len(t.keys) - 1) {
		if !t.used[i] {
			t.used[i] = true
			t.keys[i] = k
			t.vals[i] = 0
			t.n++
			return &t.vals[i]
		}
		if t.keys[i] == k {
			return &t.vals[i]
		}
	}
}

func (t *u64Table) put(k uint64, v int) { *t.ref(k) = v }

func (t *u64Table) grow() {
	old := *t
	sz := 64
	if len(old.keys) > 0 {
		sz = 2 * len(old.keys)
	}
	t.keys, t.vals, t.used, t.n = make([]uint64, sz), make([]int, sz), make([]bool, sz), 0
	for i := range old.keys {
		if old.used[i] {
			*t.ref(old.keys[i]) = old.vals[i]
		}
	}
}

func (t *u64Table) each(f func(k uint64, v int)) {
	for i := range t.keys {
		if t.used[i] {
			f(t.keys[i], t.vals[i])
		}
	}
}

func hashString(s string) uint64 {
	h := uint64(1469598103934665603)
	for i := 0; i < len(s); i++ {
		h ^= uint64(s[i])
		h *= 1099511628211
	}
	return h
}

// interner maps strings to small dense ids.
type interner struct {
	t     u64Table
	names []string
}

func (in *interner) id(s string) int {
	h := hashString(s)
	if v, ok := in.t.get(h); ok {
		return v
	}
	in.names = push(in.names, s)
	in.t.put(h, len(in.names)-1)
	return len(in.names) - 1
}

// counters is a named counter set.
type counters struct {
	in interner
	n  []int
}

func (c *counters) add(name string, d int) {
	i := c.in.id(name)
	for len(c.n) <= i {
		c.n = push(c.n, 0)
	}
	c.n[i] += d
}

func (c *counters) toMap() map[string]int {
	m := map[string]int{}
	for i, v := range c.n {
		m[c.in.names[i]] = v
	}
	return m
}
