//go:build race

package simrt

import (
	"reflect"
	"runtime"
	"unsafe"
)

// In race builds the simulator hides its own hand-offs from the detector (RaceDisable turns off the
// handling of synchronisation events, memory accesses are still checked) and the shims report the
// happens-before edges of the primitives they replace, at the same places as the real sync package.
// simrt and the shims themselves are compiled without race instrumentation (see the driver).

func raceDisable() { runtime.RaceDisable() }
func raceEnable()  { runtime.RaceEnable() }

func addr(p any) unsafe.Pointer { return reflect.ValueOf(p).UnsafePointer() }

func RaceAcquire(p any)      { runtime.RaceAcquire(addr(p)) }
func RaceRelease(p any)      { runtime.RaceRelease(addr(p)) }
func RaceReleaseMerge(p any) { runtime.RaceReleaseMerge(addr(p)) }

const RaceEnabled = true
