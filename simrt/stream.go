package simrt

// Stream is a lazily filled vector of small choices. Seeded runs extend it from the PRNG and record
// every value; replays feed the recorded vector back (missing entries read as 0, which means
// "stay on the current task / first option" everywhere).
type Stream struct {
	Vals   []uint32
	pos    int
	rng    *RNG
	Replay bool
}

func NewStream(seed uint64) *Stream { return &Stream{rng: NewRNG(seed)} }

func ReplayStream(vals []uint32) *Stream {
	return &Stream{Vals: append([]uint32(nil), vals...), Replay: true, rng: NewRNG(1)}
}

func (st *Stream) choose(n int, gen func() int) int {
	if n <= 1 {
		return 0
	}
	var v int
	if st.pos < len(st.Vals) {
		v = int(st.Vals[st.pos] % uint32(n))
		st.Vals[st.pos] = uint32(v)
	} else {
		if st.Replay {
			v = 0
		} else if gen != nil {
			v = gen()
		} else {
			v = st.rng.Intn(n)
		}
		st.Vals = push(st.Vals, uint32(v))
	}
	st.pos++
	return v
}

func (st *Stream) aux(n int) int { return st.choose(n, nil) }

// Used returns the prefix of values actually consumed.
func (st *Stream) Used() []uint32 { return st.Vals[:st.pos] }

// RNG is splitmix64.
type RNG struct{ x uint64 }

func NewRNG(seed uint64) *RNG { return &RNG{x: seed*0x9E3779B97F4A7C15 + 0x1234567} }

func (r *RNG) Uint64() uint64 {
	r.x += 0x9E3779B97F4A7C15
	z := r.x
	z = (z ^ (z >> 30)) * 0xBF58476D1CE4E5B9
	z = (z ^ (z >> 27)) * 0x94D049BB133111EB
	return z ^ (z >> 31)
}

func (r *RNG) Intn(n int) int {
	if n <= 1 {
		return 0
	}
	return int(r.Uint64() % uint64(n))
}

func (r *RNG) Float64() float64 { return float64(r.Uint64()>>11) / (1 << 53) }

// Mix derives a per-run seed from a base seed and an index.
func Mix(a, b uint64) uint64 {
	r := RNG{x: a ^ (b * 0xD6E8FEB86659FD93)}
	r.Uint64()
	return r.Uint64()
}
