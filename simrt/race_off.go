//go:build !race

package simrt

func raceDisable() {}
func raceEnable()  {}

// RaceAcquire/Release are used by the shims to give the race detector the happens-before edges of
// the primitives they replace.
func RaceAcquire(p any)      {}
func RaceRelease(p any)      {}
func RaceReleaseMerge(p any) {}

const RaceEnabled = false
