package simrt

import (
	"fmt"
	"reflect"
	"sort"
)

// Reg gives a freshly allocated pointer / channel / map a deterministic sequence number, so that
// anything ordered by object identity (map iteration over pointer keys) is reproducible.
func Reg[T any](x T) T {
	regAny(x)
	return x
}

func regAny(x any) {
	s := S
	if s == nil {
		return
	}
	v := reflect.ValueOf(x)
	switch v.Kind() {
	case reflect.Pointer, reflect.Chan, reflect.Map, reflect.UnsafePointer:
		p := v.Pointer()
		if p != 0 {
			if _, ok := s.reg.get(uint64(p)); !ok {
				s.regSeq++
				s.reg.put(uint64(p), s.regSeq)
				s.regKeep = push(s.regKeep, x) // keep alive: the address must not be reused in this run
			}
		}
	}
}

// ObjID returns the registered sequence number of a pointer-like value (0 if unregistered).
func ObjID(x any) int {
	s := S
	if s == nil || x == nil {
		return 0
	}
	v := reflect.ValueOf(x)
	switch v.Kind() {
	case reflect.Pointer, reflect.Chan, reflect.Map, reflect.UnsafePointer:
		id, _ := s.reg.get(uint64(v.Pointer()))
		return id
	case reflect.Uintptr:
		id, _ := s.reg.get(v.Uint())
		return id
	}
	return 0
}

type keyRank struct {
	class int // 0 registered object, 1 number, 2 string, 3 other
	n     int64
	s     string
}

func rankOf(s *Sim, v reflect.Value) keyRank {
	for v.Kind() == reflect.Interface && !v.IsNil() {
		v = v.Elem()
	}
	switch v.Kind() {
	case reflect.Pointer, reflect.Chan, reflect.Map, reflect.UnsafePointer:
		if id, ok := s.reg.get(uint64(v.Pointer())); ok {
			return keyRank{0, int64(id), ""}
		}
		s.anoms.add("unregistered_map_key", 1)
		return keyRank{3, 0, v.Type().String()}
	case reflect.Uintptr:
		if id, ok := s.reg.get(v.Uint()); ok {
			return keyRank{0, int64(id), ""}
		}
		return keyRank{1, int64(v.Uint()), ""}
	case reflect.Int, reflect.Int8, reflect.Int16, reflect.Int32, reflect.Int64:
		return keyRank{1, v.Int(), ""}
	case reflect.Uint, reflect.Uint8, reflect.Uint16, reflect.Uint32, reflect.Uint64:
		return keyRank{1, int64(v.Uint()), ""}
	case reflect.String:
		return keyRank{2, 0, v.String()}
	case reflect.Bool:
		if v.Bool() {
			return keyRank{1, 1, ""}
		}
		return keyRank{1, 0, ""}
	}
	return keyRank{3, 0, fmt.Sprintf("%v", v)}
}

// MapKeys returns the keys of m in canonical order (registration order of pointer-like keys, value
// order otherwise) rotated by a schedule-stream choice, replacing Go's random map iteration order by
// a seeded one.
func MapKeys[M ~map[K]V, K comparable, V any](m M) []K {
	keys := make([]K, 0, len(m))
	for k := range m {
		keys = append(keys, k)
	}
	if len(keys) < 2 {
		return keys
	}
	vals := make([]reflect.Value, len(keys))
	for i := range keys {
		vals[i] = reflect.ValueOf(&keys[i]).Elem()
	}
	perm := orderKeys(vals)
	if perm == nil {
		return keys
	}
	out := make([]K, len(keys))
	for i, j := range perm {
		out[i] = keys[j]
	}
	return out
}

// orderKeys returns the seeded iteration order as a permutation of indices (nil = keep).
func orderKeys(vals []reflect.Value) []int {
	s := S
	if s == nil {
		return nil
	}
	ranks := make([]keyRank, len(vals))
	for i, v := range vals {
		ranks[i] = rankOf(s, v)
	}
	idx := make([]int, len(vals))
	for i := range idx {
		idx[i] = i
	}
	sort.SliceStable(idx, func(a, b int) bool {
		x, y := ranks[idx[a]], ranks[idx[b]]
		if x.class != y.class {
			return x.class < y.class
		}
		if x.n != y.n {
			return x.n < y.n
		}
		return x.s < y.s
	})
	// seeded order: a rotation plus optional reversal reaches every "which comes first" outcome
	n := len(vals)
	c := s.Sched.choose(2*n, nil)
	out := make([]int, n)
	for i := 0; i < n; i++ {
		j := (c/2 + i) % n
		if c%2 == 1 {
			j = (c/2 + n - i) % n
		}
		out[i] = idx[j]
	}
	return out
}

// MapEntry is one step of an instrumented range over a map.
type MapEntry[M ~map[K]V, K comparable, V any] struct {
	m M
	K K
}

// Get looks the key up again: an entry removed during the iteration is skipped, as the language
// specifies.
func (e MapEntry[M, K, V]) Get() (V, bool) {
	v, ok := e.m[e.K]
	return v, ok
}

// MapIter returns the entries of m in seeded order.
func MapIter[M ~map[K]V, K comparable, V any](m M) []MapEntry[M, K, V] {
	keys := MapKeys(m)
	out := make([]MapEntry[M, K, V], len(keys))
	for i, k := range keys {
		out[i] = MapEntry[M, K, V]{m, k}
	}
	return out
}
